"""T1/T2 translator shared by C03, C12 and C04: routing/{converters,rules,matcher,map}.py -> Gallina.

Owned by the C03 builder (helper module of tools/c03.py; c12.py and c04.py import it).
Reads source text only (ast); anything not recognised raises px.Unsupported.
"""
from __future__ import annotations

import ast
import os
import re

from . import pyextract as px
from .vlib import COQ


def _norm(node: ast.AST) -> str:
    return ast.unparse(node)


def _class_consts(cls: ast.ClassDef) -> dict:
    """class-level `name = <literal>` assignments (implicit string concatenation allowed)."""
    out = {}
    for node in cls.body:
        tgt = val = None
        if isinstance(node, ast.Assign) and len(node.targets) == 1 and isinstance(node.targets[0], ast.Name):
            tgt, val = node.targets[0].id, node.value
        elif isinstance(node, ast.AnnAssign) and isinstance(node.target, ast.Name) and node.value is not None:
            tgt, val = node.target.id, node.value
        if tgt is None:
            continue
        try:
            out[tgt] = ast.literal_eval(val)
        except Exception:  # noqa: BLE001
            out[tgt] = ("expr", _norm(val))
    return out


def _method(cls: ast.ClassDef, name: str) -> ast.FunctionDef | None:
    found = None
    for n in cls.body:
        if isinstance(n, ast.FunctionDef) and n.name == name:
            found = n
    return found


def _bases(cls: ast.ClassDef) -> list[str]:
    out = []
    for b in cls.bases:
        if not isinstance(b, ast.Name):
            raise px.Unsupported(f"base of {cls.name} is not a plain name")
        out.append(b.id)
    return out


def _fstring_pieces(node: ast.expr) -> list:
    """JoinedStr -> list of str constants and ('v', unparsed expression)."""
    if isinstance(node, ast.Constant) and isinstance(node.value, str):
        return [node.value]
    if not isinstance(node, ast.JoinedStr):
        raise px.Unsupported(f"expected an f-string: {_norm(node)}")
    out = []
    for v in node.values:
        if isinstance(v, ast.Constant):
            out.append(v.value)
        elif isinstance(v, ast.FormattedValue):
            if v.conversion != -1 or v.format_spec is not None:
                raise px.Unsupported(f"f-string conversion/format in {_norm(node)}")
            out.append(("v", _norm(v.value)))
    return out


def _find_assigns_in(fn: ast.AST, target: str) -> list[ast.expr]:
    out = []
    for n in ast.walk(fn):
        if isinstance(n, ast.Assign) and len(n.targets) == 1 and _norm(n.targets[0]) == target:
            out.append(n.value)
    return out


def _stmts(fn: ast.AST) -> set[str]:
    """every statement of fn, unparsed on its own; an `if` is rendered as
    'if TEST: s1; s2' (simple statements of its body only), a `for` as 'for T in I:'."""
    out = set()
    for n in ast.walk(fn):
        if isinstance(n, ast.If):
            body = "; ".join(ast.unparse(b) for b in n.body if not isinstance(b, (ast.If, ast.For, ast.While, ast.Try, ast.With)))
            out.add(f"if {ast.unparse(n.test)}: {body}")
        elif isinstance(n, ast.For):
            out.add(f"for {ast.unparse(n.target)} in {ast.unparse(n.iter)}:")
        elif isinstance(n, ast.stmt) and not isinstance(n, (ast.FunctionDef, ast.ClassDef, ast.While, ast.Try, ast.With)):
            out.add(ast.unparse(n))
    return out


def _need(fn: ast.AST, where: str, needles: list[str]) -> None:
    have = _stmts(fn)
    for nd in needles:
        if nd not in have:
            raise px.Unsupported(f"{where}: statement not found: {nd!r}")


def _expect(cond: bool, what: str) -> None:
    if not cond:
        raise px.Unsupported(what)


# ---------------------------------------------------------------- T2: NumberConverter.to_python

class _T2:
    """boolean expression translator over an explicit atom table."""

    def __init__(self, atoms: dict[str, str]):
        self.atoms = atoms

    def b(self, e: ast.expr) -> str:
        if isinstance(e, ast.BoolOp):
            op = " && " if isinstance(e.op, ast.And) else " || "
            return "(" + op.join(self.b(v) for v in e.values) + ")"
        if isinstance(e, ast.UnaryOp) and isinstance(e.op, ast.Not):
            return f"(negb {self.b(e.operand)})"
        txt = _norm(e)
        if txt in self.atoms:
            return self.atoms[txt]
        raise px.Unsupported(f"T2: unmapped atom {txt!r}")


def _number_to_python(cls: ast.ClassDef) -> str:
    fn = _method(cls, "to_python")
    _expect(fn is not None, "NumberConverter.to_python missing")
    body = [s for s in fn.body if not (isinstance(s, ast.Expr) and isinstance(s.value, ast.Constant))]
    # expected shape: if C1: raise ValidationError() ; value_num = self.num_convert(value) ; if C2: raise ; return value_num
    _expect(len(body) == 4, f"NumberConverter.to_python has {len(body)} statements, expected 4")
    i1, asg, i2, ret = body

    def is_raise_only(s):
        return (isinstance(s, ast.If) and not s.orelse and len(s.body) == 1 and isinstance(s.body[0], ast.Raise)
                and _norm(s.body[0].exc) == "ValidationError()")
    _expect(is_raise_only(i1) and is_raise_only(i2), "NumberConverter.to_python: if/raise shape changed")
    _expect(_norm(asg) == "value_num = self.num_convert(value)", f"NumberConverter.to_python: {_norm(asg)}")
    _expect(_norm(ret) == "return value_num", f"NumberConverter.to_python: {_norm(ret)}")
    atoms = {
        "self.fixed_digits": "(negb (fixed =? 0))",
        "len(value) != self.fixed_digits": "(negb (len =? fixed))",
        "self.fixed_digits != len(value)": "(negb (len =? fixed))",
        "self.min is not None": "(zsome mn)",
        "self.max is not None": "(zsome mx)",
        "value_num < self.min": "(num <? zget mn)%Z",
        "self.min > value_num": "(num <? zget mn)%Z",
        "value_num > self.max": "(zget mx <? num)%Z",
        "self.max < value_num": "(zget mx <? num)%Z",
        "value_num <= self.min": "(num <=? zget mn)%Z",
        "value_num >= self.max": "(zget mx <=? num)%Z",
    }
    t2 = _T2(atoms)
    return ("Definition num_rejects_length (fixed len : N) : bool := " + t2.b(i1.test) + ".\n"
            "Definition num_rejects_range (num : Z) (mn mx : option Z) : bool := " + t2.b(i2.test) + ".\n")


# ---------------------------------------------------------------- T2: the decision chains of StateMachineMatcher.match

_MATCH_ATOMS = {
    "result is None": "(negb conv_ok)",
    "rule.strict_slashes": "strict",
    "rule.methods is not None": "has_m",
    "rule.methods is None": "(negb has_m)",
    "method not in rule.methods": "(negb in_m)",
    "method in rule.methods": "in_m",
    "rule.websocket != websocket": "(negb ws_eq)",
    "websocket != rule.websocket": "(negb ws_eq)",
    "websocket == rule.websocket": "ws_eq",
    "rule.websocket == websocket": "ws_eq",
}


def _t2_loop_body(stmts: list[ast.stmt], where: str) -> str:
    """the body of one `for rule in ...:` loop of _match as a Gallina expression of type gaction.
    Falling off the end of the body is `continue` (GContinue)."""
    t2 = _T2(_MATCH_ATOMS)

    def seq(sts) -> str:
        if not sts:
            return "GContinue"
        st, rest = sts[0], sts[1:]
        txt = _norm(st)
        if txt == "result = _convert(rule, values)":
            return seq(rest)
        if txt == "continue":
            return "GContinue"
        if txt == "have_match_for.update(rule.methods)":
            _expect(not rest, f"{where}: statements after have_match_for.update")
            return "GHaveMatch"
        if txt == "websocket_mismatch = True":
            _expect(not rest, f"{where}: statements after websocket_mismatch = True")
            return "GWsMismatch"
        if txt == "return (rule, result)":
            return "GReturn"
        if txt == "raise SlashRequired()":
            return "GSlashRequired"
        if isinstance(st, ast.If):
            then = seq(list(st.body))
            # an if without else continues with the following statements when the test fails or the branch falls through
            els = seq(list(st.orelse)) if st.orelse else None
            after = seq(rest)
            if els is None:
                # no else: the then-branch must leave the iteration itself when statements follow (fail closed otherwise)
                _expect(not rest or _ends(st.body), f"{where}: an if without else falls through into following statements")
                els = after
            else:
                _expect(not rest, f"{where}: statements after an if/else chain")
            return f"(if {t2.b(st.test)} then {then} else {els})"
        raise px.Unsupported(f"{where}: statement not understood: {txt!r}")

    def _ends(body) -> bool:
        last = body[-1]
        return isinstance(last, (ast.Continue, ast.Return, ast.Raise))
    return seq(stmts)


def _matcher_t2(mm: ast.FunctionDef) -> str:
    inner = [n for n in mm.body if isinstance(n, ast.FunctionDef) and n.name == "_match"]
    _expect(len(inner) == 1, "StateMachineMatcher.match: inner _match not found")
    fm = inner[0]
    body = [s_ for s_ in fm.body if not isinstance(s_, (ast.Nonlocal, ast.Expr))]
    # block order of _match: base case, part = parts[0], static, dynamic, late clause, return None
    tags = []
    base = late = None
    for st in body:
        txt = _norm(st)
        if isinstance(st, ast.If) and _norm(st.test) == "parts == []":
            tags.append(1)
            base = st
        elif txt == "part = parts[0]":
            pass
        elif isinstance(st, ast.If) and _norm(st.test) == "part in state.static":
            tags.append(2)
            _expect([_norm(x) for x in st.body] == ["rv = _match(state.static[part], parts[1:], values)", "if rv is not None:\n    return rv"],
                    "_match: static transition block changed")
        elif isinstance(st, ast.For) and _norm(st.iter) == "state.dynamic":
            tags.append(3)
        elif isinstance(st, ast.If) and _norm(st.test) == "parts == ['']":
            tags.append(4)
            late = st
        elif txt == "return None":
            tags.append(9)
        else:
            raise px.Unsupported(f"_match: unexpected top-level statement {txt[:60]!r}")
    _expect(base is not None and late is not None, "_match: base case or late clause missing")
    # base case: the rules loop, then the static[""] loop, then return None
    btags, here = [], None
    slash = None
    for st in base.body:
        if isinstance(st, ast.For) and _norm(st.iter) == "state.rules":
            btags.append(5)
            here = st
        elif isinstance(st, ast.If) and _norm(st.test) == "'' in state.static":
            btags.append(6)
            _expect(len(st.body) == 1 and isinstance(st.body[0], ast.For) and _norm(st.body[0].iter) == "state.static[''].rules",
                    "_match: slash-required block changed")
            slash = st.body[0]
        elif _norm(st) == "return None":
            btags.append(9)
        else:
            raise px.Unsupported(f"_match base case: unexpected statement {_norm(st)[:60]!r}")
    _expect(here is not None and slash is not None, "_match: base-case loops missing")
    _expect(len(late.body) == 1 and isinstance(late.body[0], ast.For) and _norm(late.body[0].iter) == "state.rules", "_match: late clause changed")
    args = "(conv_ok strict has_m in_m ws_eq : bool)"
    out = "(* StateMachineMatcher.match._match: the three rule loops as decision functions, and the order of its blocks (T2) *)\n"
    out += "Inductive gaction := GContinue | GHaveMatch | GWsMismatch | GReturn | GSlashRequired.\n"
    out += f"Definition g_step_here {args} : gaction := {_t2_loop_body(list(here.body), '_match rules loop')}.\n"
    out += f"Definition g_step_slash {args} : gaction := {_t2_loop_body(list(slash.body), '_match slash loop')}.\n"
    out += f"Definition g_step_late {args} : gaction := {_t2_loop_body(list(late.body[0].body), '_match late loop')}.\n"
    out += f"Definition g_match_blocks : list N := {px.coq_nlist(tags)}.\n"
    out += f"Definition g_base_blocks : list N := {px.coq_nlist(btags)}.\n"
    # the second pass of match()
    t2 = _T2({"self.merge_slashes": "merge", "rv is None": "rv_none", "rv[0].merge_slashes is False": "(negb rule_merge)",
              "rv is not None": "(negb rv_none)"})
    second = nomatch = None
    for n in ast.walk(mm):
        if isinstance(n, ast.If) and "merge_slashes" in _norm(n.test) and "self.merge_slashes" in _norm(n.test):
            second = n
        if isinstance(n, ast.If) and "rv[0].merge_slashes" in _norm(n.test):
            nomatch = n
    _expect(second is not None and nomatch is not None, "match: second-pass tests not found")
    _expect(isinstance(nomatch.body[0], ast.Raise) and "NoMatch" in _norm(nomatch.body[0])
            and nomatch.orelse and "RequestPath" in _norm(nomatch.orelse[0]), "match: second-pass outcome changed")
    _expect(len(second.orelse) == 1 and isinstance(second.orelse[0], ast.If) and _norm(second.orelse[0].test) == "rv is not None",
            "match: elif rv is not None changed")
    out += f"Definition g_second_pass (merge rv_none : bool) : bool := {t2.b(second.test)}.\n"
    out += f"Definition g_second_nomatch (rv_none rule_merge : bool) : bool := {t2.b(nomatch.test)}.\n"
    return out


# ---------------------------------------------------------------- statement pins (whole functions / classes)

def _strip_docs(node: ast.AST) -> ast.AST:
    import copy
    node = copy.deepcopy(node)
    for n in ast.walk(node):
        if isinstance(n, (ast.FunctionDef, ast.ClassDef, ast.Module)) and n.body and isinstance(n.body[0], ast.Expr) \
                and isinstance(n.body[0].value, ast.Constant) and isinstance(n.body[0].value.value, str):
            n.body = n.body[1:] or [ast.Pass()]
    return node


def _module_assign(mod: ast.Module, name: str) -> ast.AST:
    for n in mod.body:
        if isinstance(n, ast.Assign) and any(isinstance(t_, ast.Name) and t_.id == name for t_ in n.targets):
            return n
        if isinstance(n, ast.AnnAssign) and isinstance(n.target, ast.Name) and n.target.id == name:
            return n
    raise px.Unsupported(f"module-level {name} not found")


def _members(cls: ast.ClassDef, names: list[str]) -> list[ast.AST]:
    out = [n for n in cls.body if isinstance(n, ast.FunctionDef) and n.name in names]
    missing = set(names) - {n.name for n in out}
    if missing:
        raise px.Unsupported(f"{cls.name}: methods not found: {sorted(missing)}")
    return out


def _pin_text(items: list[tuple[str, ast.AST]], holes: dict, subs: list[tuple[str, str]] = ()) -> str:
    out = []
    for label, node in items:
        t_ = px.skeleton(_strip_docs(node), holes)
        for pat, rep in subs:
            t_ = re.sub(pat, rep, t_, flags=re.M)
        out.append(f"## {label}\n{t_}")
    return "\n".join(out) + "\n"


SAFE_SUB = (r"safe=(\"(?:[^\"\\\\]|\\\\.)*\"|'(?:[^'\\\\]|\\\\.)*')", "safe=<SAFE-TRANSLATED>")


def statement_pins(conv: ast.Module, rules: ast.Module, matcher: ast.Module, mapm: ast.Module) -> None:
    """Everything of the routing code the hand-written models (coq/C03/Trie.v, C03/Model.v, C04/Model.v, C04/Factories.v,
    C12/Model.v) and the harness oracles stand for and that is NOT translated into Gen.v is compared, as normalised source
    text (layout, comments, docstrings do not matter), with the committed pins tools/pins/c03_*.txt.  Holes mark the
    expressions that are translated (T1 constants, T2 decision functions): an edit there changes Gen.v and meets the proofs."""
    # --- matcher.py: State, the bookkeeping of add / update, and match with the translated tests of _match as holes
    sm = px.find_class(matcher, "StateMachineMatcher")
    mm = _method(sm, "match")
    holes = {}
    for n in ast.walk(mm):
        if isinstance(n, ast.For) and _norm(n.iter) in ("state.rules", "state.static[''].rules"):
            for i_ in ast.walk(n):
                if isinstance(i_, ast.If):
                    holes[ast.unparse(i_.test)] = "<RULE-LOOP-TEST T2>"
        if isinstance(n, ast.If) and ("self.merge_slashes" in _norm(n.test) or "rv[0].merge_slashes" in _norm(n.test)):
            holes[ast.unparse(n.test)] = "<SECOND-PASS-TEST T2>"
    px.check_pin("C03", "c03_matcher.txt",
                 _pin_text([("SlashRequired", px.find_class(matcher, "SlashRequired")), ("State", px.find_class(matcher, "State")),
                            ("StateMachineMatcher", sm)], holes),
                 "routing/matcher.py (State, StateMachineMatcher.__init__ / add / update / match)")
    # --- converters.py: every converter class; regex / weight / part_isolating constants and the NumberConverter tests are translated
    classes = {n.name: n for n in conv.body if isinstance(n, ast.ClassDef)}
    nholes = {}
    ntp = _method(classes["NumberConverter"], "to_python")
    for n in ast.walk(ntp):
        if isinstance(n, ast.If):
            nholes[ast.unparse(n.test)] = "<NUMBER-REJECT-TEST T2>"
    items = [(k, classes[k]) for k in ("ValidationError", "BaseConverter", "UnicodeConverter", "AnyConverter", "PathConverter", "NumberConverter",
                                       "IntegerConverter", "FloatConverter", "UUIDConverter")]
    items.append(("DEFAULT_CONVERTERS", _module_assign(conv, "DEFAULT_CONVERTERS")))
    px.check_pin("C03", "c03_converters.txt",
                 _pin_text(items, nholes, [SAFE_SUB, (r"^(\s*)(regex|weight|part_isolating) = .*$", r"\1\2 = <T1>")]),
                 "routing/converters.py (converter classes)")
    # --- rules.py: the rule grammar tables, the factories, and Rule
    rule_cls = px.find_class(rules, "Rule")
    items = [(k, _module_assign(rules, k)) for k in ("_part_re", "_simple_rule_re", "_converter_args_re", "_PYTHON_CONSTANTS",
                                                     "_CALL_CONVERTER_CODE_FMT", "_IF_KWARGS_URL_ENCODE_CODE", "_IF_KWARGS_URL_ENCODE_AST",
                                                     "_URL_ENCODE_AST_NAMES")]
    items += [(k, px.find_def(rules, k)) for k in ("_find", "_pythonize", "parse_converter_args", "_prefix_names")]
    items += [(k, px.find_class(rules, k)) for k in ("Weighting", "RulePart", "RuleFactory", "Subdomain", "Submount", "EndpointPrefix",
                                                     "RuleTemplate", "RuleTemplateFactory")]
    items += [("Rule." + f.name, f) for f in _members(rule_cls, [
        "__init__", "empty", "get_empty_kwargs", "get_rules", "refresh", "bind", "get_converter", "_encode_query_vars", "_parse_rule",
        "compile", "_get_func_code", "_compile_builder", "build", "provides_defaults_for", "suitable_for", "build_compare_key", "__eq__"])]
    px.check_pin("C03", "c03_rules.txt", _pin_text(items, {}, [SAFE_SUB]), "routing/rules.py (grammar tables, rule factories, Rule)")
    # --- map.py: Map (construction flags, add / update / bind / bind_to_environ) and MapAdapter (match, build and the redirects)
    mp, ma = px.find_class(mapm, "Map"), px.find_class(mapm, "MapAdapter")
    items = [("Map." + f.name, f) for f in _members(mp, ["__init__", "merge_slashes", "_rules", "iter_rules", "add", "bind", "bind_to_environ", "update"])]
    items += [("MapAdapter." + f.name, f) for f in _members(ma, [
        "__init__", "match", "get_host", "get_default_redirect", "encode_query_args", "make_redirect_url", "make_alias_redirect_url",
        "_partial_build", "build", "allowed_methods", "test"])]
    px.check_pin("C03", "c03_map.txt", _pin_text(items, {}, [SAFE_SUB]), "routing/map.py (Map, MapAdapter)")
    # --- glue of the query extras (C04): werkzeug.urls._urlencode and iter_multi_items
    urls, ds = px.load("urls.py"), px.load("datastructures/structures.py")
    px.check_pin("C03", "c03_glue.txt",
                 _pin_text([("urls._urlencode", px.find_def(urls, "_urlencode")), ("structures.iter_multi_items", px.find_def(ds, "iter_multi_items"))], {}),
                 "werkzeug.urls._urlencode / datastructures.iter_multi_items")


# ---------------------------------------------------------------- main generator

def routing_gen_text() -> str:
    conv = px.load("routing/converters.py")
    rules = px.load("routing/rules.py")
    matcher = px.load("routing/matcher.py")
    mapm = px.load("routing/map.py")

    classes = {n.name: n for n in conv.body if isinstance(n, ast.ClassDef)}
    for need in ["BaseConverter", "UnicodeConverter", "AnyConverter", "PathConverter", "NumberConverter",
                 "IntegerConverter", "FloatConverter", "UUIDConverter"]:
        _expect(need in classes, f"converter class {need} missing")

    # --- __init_subclass__ : part_isolating defaults to "/" not in regex when regex is set in the class body
    isc = _method(classes["BaseConverter"], "__init_subclass__")
    _expect(isc is not None, "BaseConverter.__init_subclass__ missing")
    isc_ifs = [n for n in isc.body if isinstance(n, ast.If)]
    _expect(len(isc_ifs) == 1 and _norm(isc_ifs[0].test) == "'regex' in cls.__dict__ and 'part_isolating' not in cls.__dict__"
            and [_norm(s) for s in isc_ifs[0].body] == ["cls.part_isolating = '/' not in cls.regex"],
            "BaseConverter.__init_subclass__ changed")

    # resolve class attributes along single inheritance
    def resolve(name: str, attr: str):
        cls = classes[name]
        c = _class_consts(cls)
        if attr in c:
            return c[attr]
        bs = _bases(cls)
        _expect(len(bs) == 1 and bs[0] in classes, f"cannot resolve {name}.{attr}")
        return resolve(bs[0], attr)

    def isolating(name: str) -> bool:
        cls = classes[name]
        c = _class_consts(cls)
        if "part_isolating" in c:
            return bool(c["part_isolating"])
        if name != "BaseConverter" and "regex" in c:
            _expect(isinstance(c["regex"], str), f"{name}.regex is not a literal")
            return "/" not in c["regex"]
        bs = _bases(cls)
        _expect(len(bs) == 1 and bs[0] in classes, f"cannot resolve {name}.part_isolating")
        return isolating(bs[0])

    # DEFAULT_CONVERTERS
    dc = None
    for node in conv.body:
        if isinstance(node, ast.AnnAssign) and isinstance(node.target, ast.Name) and node.target.id == "DEFAULT_CONVERTERS":
            dc = node.value
        if isinstance(node, ast.Assign) and any(isinstance(t, ast.Name) and t.id == "DEFAULT_CONVERTERS" for t in node.targets):
            dc = node.value
    _expect(isinstance(dc, ast.Dict), "DEFAULT_CONVERTERS is not a dict literal")
    names = {}
    for k, v in zip(dc.keys, dc.values):
        _expect(isinstance(v, ast.Name), "DEFAULT_CONVERTERS value is not a class name")
        names[px.const(k)] = v.id
    want = {"default": "UnicodeConverter", "string": "UnicodeConverter", "any": "AnyConverter", "path": "PathConverter",
            "int": "IntegerConverter", "float": "FloatConverter", "uuid": "UUIDConverter"}
    _expect(names == want, f"DEFAULT_CONVERTERS changed: {names}")

    base_regex = resolve("BaseConverter", "regex")
    int_regex = resolve("IntegerConverter", "regex")
    float_regex = resolve("FloatConverter", "regex")
    uuid_regex = resolve("UUIDConverter", "regex")
    path_regex = resolve("PathConverter", "regex")
    for r in (base_regex, int_regex, float_regex, uuid_regex, path_regex):
        _expect(isinstance(r, str), "a converter regex is not a string literal")
    weights = {k: resolve(v, "weight") for k, v in want.items()}
    for w in weights.values():
        _expect(isinstance(w, int), "a converter weight is not an int literal")
    iso = {k: isolating(v) for k, v in want.items()}
    _expect(resolve("FloatConverter", "num_convert") == ("expr", "float"), "FloatConverter.num_convert is not float")
    nc = _class_consts(classes["NumberConverter"]).get("num_convert")
    _expect(nc == ("expr", "int"), "NumberConverter.num_convert is not int")

    # UnicodeConverter.__init__: regex f-strings
    ui = _method(classes["UnicodeConverter"], "__init__")
    _expect(ui is not None, "UnicodeConverter.__init__ missing")
    a = ui.args
    _expect([x.arg for x in a.args] == ["self", "map", "minlength", "maxlength", "length"]
            and [_norm(d) for d in a.defaults] == ["1", "None", "None"], "UnicodeConverter.__init__ signature changed")
    rx = _find_assigns_in(ui, "self.regex")
    _expect(len(rx) == 1, "UnicodeConverter: self.regex assigned more than once")
    pcs = _fstring_pieces(rx[0])
    _expect(len(pcs) == 2 and isinstance(pcs[0], str) and pcs[1] == ("v", "length_regex"), f"UnicodeConverter regex f-string changed: {pcs}")
    str_prefix = pcs[0]
    lrs = [_fstring_pieces(v) for v in _find_assigns_in(ui, "length_regex")]
    _expect(lrs == [["{", ("v", "int(length)"), "}"], ["{", ("v", "int(minlength)"), ",", ("v", "maxlength_value"), "}"]],
            f"UnicodeConverter length_regex changed: {lrs}")
    mv = [_norm(v) for v in _find_assigns_in(ui, "maxlength_value")]
    _expect(mv == ["''", "str(int(maxlength))"], f"UnicodeConverter maxlength_value changed: {mv}")
    top_if = [n for n in ui.body if isinstance(n, ast.If)]
    _expect(len(top_if) == 1 and _norm(top_if[0].test) == "length is not None", "UnicodeConverter length test changed")

    # AnyConverter regex
    ai = _method(classes["AnyConverter"], "__init__")
    rx = _find_assigns_in(ai, "self.regex")
    _expect(len(rx) == 1, "AnyConverter regex")
    pcs = _fstring_pieces(rx[0])
    _expect(len(pcs) == 3 and pcs[1] == ("v", "'|'.join([re.escape(x) for x in items])"), f"AnyConverter regex f-string changed: {pcs}")
    any_prefix, any_suffix = pcs[0], pcs[2]

    # NumberConverter.signed_regex and __init__
    sr = _method(classes["NumberConverter"], "signed_regex")
    _expect(sr is not None and len(sr.body) == 1 and isinstance(sr.body[0], ast.Return), "signed_regex changed")
    pcs = _fstring_pieces(sr.body[0].value)
    _expect(len(pcs) == 2 and pcs[1] == ("v", "self.regex") and isinstance(pcs[0], str), f"signed_regex changed: {pcs}")
    signed_prefix = pcs[0]
    ni = _method(classes["NumberConverter"], "__init__")
    _expect([x.arg for x in ni.args.args] == ["self", "map", "fixed_digits", "min", "max", "signed"]
            and [_norm(d) for d in ni.args.defaults] == ["0", "None", "None", "False"], "NumberConverter.__init__ signature changed")
    t2_text = _number_to_python(classes["NumberConverter"])
    # UUID / Base to_python, Base/Any/Number/UUID to_url are pinned by text
    pins = {
        ("BaseConverter", "to_python"): ["return value"],
        ("BaseConverter", "to_url"): ["return quote(str(value), safe=\"!$&'()*+,/:;=@\")"],
        ("UUIDConverter", "to_python"): ["return uuid.UUID(value)"],
        ("UUIDConverter", "to_url"): ["return str(value)"],
        ("NumberConverter", "to_url"): ["value_str = str(self.num_convert(value))", "if self.fixed_digits:\n    value_str = value_str.zfill(self.fixed_digits)",
                                        "return value_str"],
    }
    safe_url = None
    for (cn, mn), want_body in pins.items():
        fn = _method(classes[cn], mn)
        _expect(fn is not None, f"{cn}.{mn} missing")
        body = [_norm(s) for s in fn.body if not isinstance(s, ast.Expr)]
        if (cn, mn) == ("BaseConverter", "to_url"):
            _expect(len(body) == 1 and isinstance(fn.body[-1], ast.Return), "BaseConverter.to_url changed")
            call = fn.body[-1].value
            _expect(isinstance(call, ast.Call) and _norm(call.func) == "quote" and _norm(call.args[0]) == "str(value)"
                    and len(call.keywords) == 1 and call.keywords[0].arg == "safe", "BaseConverter.to_url changed")
            safe_url = px.const(call.keywords[0].value)
            continue
        _expect(body == want_body, f"{cn}.{mn} changed: {body}")
    for cn in ("UnicodeConverter", "PathConverter", "IntegerConverter", "FloatConverter"):
        _expect(_method(classes[cn], "to_python") is None and _method(classes[cn], "to_url") is None,
                f"{cn} gained a to_python/to_url override")
    au = _method(classes["AnyConverter"], "to_url")
    _expect(au is not None and _norm(au.body[0]) == "if value in self.items:\n    return str(value)" and isinstance(au.body[-1], ast.Raise),
            "AnyConverter.to_url changed")

    # --- rules.py
    rule_cls = px.find_class(rules, "Rule")
    pr = _method(rule_cls, "_parse_rule")
    _expect(pr is not None, "Rule._parse_rule missing")
    group_piece = None
    for n in ast.walk(pr):
        if isinstance(n, ast.AugAssign) and _norm(n.target) == "content" and isinstance(n.value, ast.JoinedStr):
            group_piece = _fstring_pieces(n.value)
    _expect(group_piece is not None and len(group_piece) == 5 and group_piece[1] == ("v", "convertor_number")
            and group_piece[3] == ("v", "convobj.regex"), f"_parse_rule group f-string changed: {group_piece}")
    g_open, g_mid, g_close = group_piece[0], group_piece[2], group_piece[4]
    # statements the model's parts, weights and flags follow
    _need(pr, "Rule._parse_rule", [
        "static_weights.append((len(static_weights), -len(data['static'])))",
        "argument_weights.append(convobj.weight)",
        "weight = Weighting(-len(static_weights), static_weights, -len(argument_weights), argument_weights)",
        "if not convobj.part_isolating: final = True",
        "content += data['static'] if static else re.escape(data['static'])",
        "if static: content = re.escape(content)",
        "if final: content += '/'",
        "if not static: content += '\\\\Z'",
        "if suffixed: yield RulePart(content='', final=False, static=True, suffixed=False, weight=weight)",
        "yield RulePart(content=content, final=final, static=static, suffixed=False, weight=weight)",
        "yield RulePart(content=content, final=final, static=static, suffixed=suffixed, weight=weight)",
        "convertor_number = 0", "static_weights = []", "argument_weights = []", "static = True", "final = False", "content = ''",
    ])
    pr_txt = _norm(pr)
    _expect(pr_txt.count("Weighting(") == 2 and pr_txt.count("yield RulePart(") == 3, "_parse_rule: Weighting / yield count changed")
    suff = None
    for n in ast.walk(pr):
        if isinstance(n, ast.If) and _norm(n.test) == "final and content[-1] == '/'":
            for st in n.body:
                if isinstance(st, ast.Assign) and _norm(st.targets[0]) == "content" and isinstance(st.value, ast.BinOp) \
                        and _norm(st.value.left) == "content[:-1]":
                    suff = px.const(st.value.right)
    _expect(isinstance(suff, str), "_parse_rule: suffixed regex tail not found")
    ends = {px.const(n.value) for n in ast.walk(pr)
            if isinstance(n, ast.AugAssign) and _norm(n.target) == "content" and isinstance(n.value, ast.Constant)}
    _expect(ends == {"/", "\\Z"}, f"_parse_rule: constant content suffixes changed: {ends}")
    wt = px.find_class(rules, "Weighting")
    fields = [n.target.id for n in wt.body if isinstance(n, ast.AnnAssign)]
    _expect(fields == ["number_static_weights", "static_weights", "number_argument_weights", "argument_weights"], "Weighting fields changed")
    comp = _method(rule_cls, "compile")
    _need(comp, "Rule.compile", [
        "if self.map.host_matching: domain_rule = self.host or ''",
        "domain_rule = self.subdomain or ''",
        "if domain_rule == '': self._parts = [RulePart(content='', final=False, static=True, suffixed=False, weight=Weighting(0, [], 0, []))]",
        "self._parts.extend(self._parse_rule(domain_rule))",
        "self._parts.extend(self._parse_rule(rule))",
    ])
    merge_rule = None
    for n in ast.walk(comp):
        if isinstance(n, ast.Call) and _norm(n.func) == "re.sub":
            merge_rule = (px.const(n.args[0]), px.const(n.args[1]))
    _expect(merge_rule is not None, "Rule.compile: merge re.sub not found")
    init = _method(rule_cls, "__init__")
    _need(init, "Rule.__init__", [
        "if 'HEAD' not in methods and 'GET' in methods: methods.add('HEAD')",
        "if methods is not None: methods = {x.upper() for x in methods}",
        "self.is_branch = string.endswith('/')",
    ])
    # builder quoting of literals (C04)
    cb = _method(rule_cls, "_compile_builder")
    safe_lit = None
    for n in ast.walk(cb):
        if isinstance(n, ast.Call) and _norm(n.func) == "quote":
            _expect(_norm(n.args[0]) == "data", "_compile_builder quote argument changed")
            safe_lit = px.const(n.keywords[0].value)
    _expect(isinstance(safe_lit, str), "_compile_builder: quote(safe=) not found")
    bck = _method(rule_cls, "build_compare_key")
    _expect(_norm(bck.body[-1]) == "return (1 if self.alias else 0, -len(self.arguments), -len(self.defaults or ()))", "build_compare_key changed")

    # --- matcher.py
    sm = px.find_class(matcher, "StateMachineMatcher")
    mm = _method(sm, "match")
    merge_match = None
    for n in ast.walk(mm):
        if isinstance(n, ast.Call) and _norm(n.func) == "re.sub":
            merge_match = (px.const(n.args[0]), px.const(n.args[1]))
    _expect(merge_match is not None, "matcher.match: merge re.sub not found")
    _need(mm, "StateMachineMatcher.match", [
        "groups = [value for key, value in converter_groups if key[:11] == '__werkzeug_']",
        "converter_groups = sorted(match.groupdict().items(), key=lambda entry: (len(entry[0]), entry[0]))",
        "rv = _match(self._root, [domain, *path.split('/')], [])",
        "raise RequestPath(f'{path}/') from None", "raise RequestPath(f'{path}')",
        "if self.merge_slashes and rv is None: path = re.sub('/{2,}?', '/', path)",
        "if rv is None or rv[0].merge_slashes is False: raise NoMatch(have_match_for, websocket_mismatch)",
        "if part in state.static: rv = _match(state.static[part], parts[1:], values)",
        "for (test_part, new_state) in state.dynamic:", "for rule in state.rules:", "for rule in state.static[''].rules:",
        "if test_part.final: target = '/'.join(parts); remaining = []",
        "if test_part.suffixed: suffix = match.groups()[-1]", "if suffix == '/': remaining = ['']",
        "match = re.compile(test_part.content).match(target)",
        "rv = _match(new_state, remaining, values + groups)",
        "if rule.methods is not None and method not in rule.methods: have_match_for.update(rule.methods)",
        "if rule.websocket != websocket: websocket_mismatch = True",
        "if websocket == rule.websocket and (rule.methods is None or method in rule.methods): raise SlashRequired()", "if rule.strict_slashes: continue",
        "result = _convert(rule, values)", "if result is None: continue",
        "for (name, value) in zip(rule._converters.keys(), values):",
        "result[str(name)] = rule._converters[name].to_python(value)",
        "if rule.defaults: result.update(rule.defaults)",
        "if rule.alias and rule.map.redirect_defaults: raise RequestAliasRedirect(result, rule.endpoint)",
        "target = part", "remaining = parts[1:]", "part = parts[0]",
    ])
    ifs = {f"if {_norm(n.test)}" for n in ast.walk(mm) if isinstance(n, ast.If)}
    for t_ in ["if parts == []", "if parts == ['']", "if '' in state.static", "if rule.strict_slashes"]:
        _expect(t_ in ifs, f"StateMachineMatcher.match: test not found: {t_!r}")
    _need(_method(sm, "add"), "StateMachineMatcher.add", [
        "if part.static: state.static.setdefault(part.content, State()); state = state.static[part.content]",
        "if test_part == part: state = new_state; break", "state.dynamic.append((part, new_state))", "state.rules.append(rule)",
        "for part in rule._parts:"])
    upd = _method(sm, "update")
    _need(upd, "StateMachineMatcher.update", ["state.dynamic.sort(key=lambda entry: entry[0].weight)"])
    matcher_t2_text = _matcher_t2(mm)

    # --- map.py
    ma = px.find_class(mapm, "MapAdapter")
    am = _method(ma, "match")
    safe_redirect = None
    for n in ast.walk(am):
        if isinstance(n, ast.Call) and _norm(n.func) == "quote" and _norm(n.args[0]) == "e.path_info":
            safe_redirect = px.const(n.keywords[0].value)
    _expect(isinstance(safe_redirect, str), "MapAdapter.match: quote(e.path_info, safe=) not found")
    _need(am, "MapAdapter.match", [
        "path_part = f'/{path_info.lstrip('/')}' if path_info else ''",
        "method = (method or self.default_method).upper()",
        "if self.map.redirect_defaults: redirect_url = self.get_default_redirect(rule, method, rv, query_args)",
        "if redirect_url is not None: raise RequestRedirect(redirect_url)",
        "if not self.map.host_matching and self.subdomain is not None: domain_part = self.subdomain",
        "domain_part = self.server_name",
        "if e.have_match_for: raise MethodNotAllowed(valid_methods=list(e.have_match_for)) from None",
        "if e.websocket_mismatch: raise WebsocketMismatch() from None",
        "raise NotFound() from None",
        "result = self.map._matcher.match(domain_part, path_part, method, websocket)",
        "raise RequestRedirect(self.make_redirect_url(new_path, query_args)) from None",
        "if websocket is None: websocket = self.websocket",
    ])
    _need(_method(ma, "make_redirect_url"), "MapAdapter.make_redirect_url", [
        "path = '/'.join((self.script_name.strip('/'), path_info.lstrip('/')))",
        "return urlunsplit((scheme, host, path, query_str, None))", "scheme = self.url_scheme or 'http'",
        "host = self.get_host(domain_part)", "if query_args: query_str = self.encode_query_args(query_args)"])
    _need(_method(ma, "get_host"), "MapAdapter.get_host", [
        "if domain_part is None: return self.server_name", "if self.map.host_matching: return domain_part",
        "if domain_part is None: subdomain = self.subdomain", "if subdomain: return f'{subdomain}.{self.server_name}'",
        "return self.server_name"])
    # how an adapter gets its subdomain (the harness resolves these two rules when it encodes an adapter for the model)
    mp = px.find_class(mapm, "Map")
    _need(_method(mp, "bind"), "Map.bind", [
        "server_name = server_name.lower()", "if subdomain is None: subdomain = self.default_subdomain"])
    _need(_method(mp, "bind_to_environ"), "Map.bind_to_environ", [
        "subdomain = '<invalid>'", "subdomain = '.'.join(filter(None, cur_server_name[:offset]))",
        "if upgrade and env.get('HTTP_UPGRADE', '').lower() == 'websocket': scheme = 'wss' if scheme == 'https' else 'ws'"])
    _need(_method(ma, "__init__"), "MapAdapter.__init__", [
        "if not script_name.endswith('/'): script_name += '/'", "self.websocket = self.url_scheme in {'ws', 'wss'}"])

    # --- interpreter tables (not werkzeug source): Unicode \d runs and re.escape specials
    runs = []
    for c in range(0x110000):
        if re.fullmatch(r"\d", chr(c)):
            if runs and runs[-1][1] + 1 == c:
                runs[-1][1] = c
            else:
                runs.append([c, c])
    for a_, b_ in runs:
        _expect((b_ - a_ + 1) % 10 == 0, "a Unicode digit run is not a multiple of ten")
        for c in range(a_, b_ + 1):
            _expect(int(chr(c)) == (c - a_) % 10, "Unicode digit value is not its offset in the run")
    import urllib.parse as _up
    uses_netloc = list(_up.uses_netloc)
    esc = [c for c in range(128) if re.escape(chr(c)) != chr(c)]
    _expect(all(re.escape(chr(c)) == "\\" + chr(c) for c in esc), "re.escape no longer prefixes a backslash")
    _expect(all(re.escape(chr(c)) == chr(c) for c in (0x80, 0xe9, 0x3b1, 0x20ac, 0x1f600)), "re.escape escapes non-ASCII")

    statement_pins(conv, rules, matcher, mapm)

    S = px.coq_string_codes
    out = px.HEADER.format(tool="c03.py", src="routing/converters.py, rules.py, matcher.py, map.py")
    out = out.replace("From Wz Require Import lib.Bytes.", "From Coq Require Import ZArith.\nFrom Wz Require Import lib.Bytes.")
    out += "Definition zsome (o : option Z) : bool := match o with Some _ => true | None => false end.\n"
    out += "Definition zget (o : option Z) : Z := match o with Some z => z | None => 0%Z end.\n"
    out += "(* NumberConverter.to_python: the two rejection tests, translated structurally (T2) *)\n" + t2_text
    out += matcher_t2_text
    out += f"Definition rx_base : list N := {S(base_regex)}.\n"
    out += f"Definition rx_int : list N := {S(int_regex)}.\n"
    out += f"Definition rx_float : list N := {S(float_regex)}.\n"
    out += f"Definition rx_uuid : list N := {S(uuid_regex)}.\n"
    out += f"Definition rx_path : list N := {S(path_regex)}.\n"
    out += f"Definition rx_str_prefix : list N := {S(str_prefix)}.\n"
    out += f"Definition rx_any_prefix : list N := {S(any_prefix)}.\n"
    out += f"Definition rx_any_suffix : list N := {S(any_suffix)}.\n"
    out += f"Definition rx_signed_prefix : list N := {S(signed_prefix)}.\n"
    out += f"Definition rx_group_open : list N := {S(g_open)}.\n"
    out += f"Definition rx_group_mid : list N := {S(g_mid)}.\n"
    out += f"Definition rx_group_close : list N := {S(g_close)}.\n"
    out += f"Definition rx_suffixed_tail : list N := {S(suff)}.\n"
    out += f"Definition rx_end : list N := {S(chr(92) + 'Z')}.\n"
    out += f"Definition rx_merge_rule : list N := {S(merge_rule[0])}.\n"
    out += f"Definition rx_merge_rule_repl : list N := {S(merge_rule[1])}.\n"
    out += f"Definition rx_merge_match : list N := {S(merge_match[0])}.\n"
    out += f"Definition rx_merge_match_repl : list N := {S(merge_match[1])}.\n"
    for k in ("default", "string", "any", "path", "int", "float", "uuid"):
        out += f"Definition weight_{k} : Z := {int(weights[k])}%Z.\n"
        out += f"Definition isolating_{k} : bool := {'true' if iso[k] else 'false'}.\n"
    out += f"Definition safe_to_url : list N := {S(safe_url)}.\n"
    out += f"Definition safe_literal : list N := {S(safe_lit)}.\n"
    out += f"Definition safe_redirect : list N := {S(safe_redirect)}.\n"
    out += f"Definition digit_runs : list (N * N) := [{'; '.join(f'({a_}, {b_})' for a_, b_ in runs)}]%N.\n"
    out += "Definition uses_netloc : list (list N) := [" + "; ".join(S(x) for x in uses_netloc) + "].\n"
    out += f"Definition re_escape_specials : list N := {px.coq_nlist(esc)}.\n"
    return out


def write_gen(pid: str) -> None:
    """each of C03 / C12 / C04 regenerates coq/C03/Gen.v (one shared generated file)."""
    px.write_if_changed(os.path.join(COQ, "C03", "Gen.v"), routing_gen_text())


# ====================================================================== rule grammar (shared by C03 / C12 / C04)
import itertools
import uuid as _uuid
from dataclasses import dataclass, field, replace

from .vlib import Check, cps, uncps, with_timeout, ImplTimeout

WEIGHTS = {"s": 100, "i": 50, "f": 50, "a": 100, "u": 100, "p": 200}   # the property's "narrower before broader"


@dataclass(frozen=True)
class Conv:
    kind: str                       # s i f a u p
    exact: int | None = None        # string(length=)
    mn: int | None = None           # string(minlength=) / int(min=)
    mx: int | None = None           # string(maxlength=) / int(max=)
    fixed: int = 0                  # int(fixed_digits=)
    signed: bool = False
    items: tuple = ()

    def text(self) -> str:
        k = self.kind
        if k == "s":
            if self.exact is not None:
                return f"string(length={self.exact})"
            args = []
            if self.mn is not None:
                args.append(f"minlength={self.mn}")
            if self.mx is not None:
                args.append(f"maxlength={self.mx}")
            return "string(" + ",".join(args) + ")" if args else "string"
        if k in "if":
            args = []
            if self.fixed:
                args.append(f"fixed_digits={self.fixed}")
            if self.mn is not None:
                args.append(f"min={self.mn}")
            if self.mx is not None:
                args.append(f"max={self.mx}")
            if self.signed:
                args.append("signed=True")
            name = "int" if k == "i" else "float"
            return name + ("(" + ",".join(args) + ")" if args else "")
        if k == "a":
            # quoted arguments keep their text: _pythonize strips the quotes, a backslash stays a backslash
            return "any(" + ",".join(i if re.fullmatch(r"[a-z]+", i) else (("'" + i + "'") if '"' in i else ('"' + i + '"')) for i in self.items) + ")"
        return {"u": "uuid", "p": "path"}[k]

    def enc(self) -> str:
        o = lambda v: "~" if v is None else str(v)  # noqa: E731
        k = self.kind
        if k == "s":
            return f"s.{o(self.exact)}.{1 if self.mn is None else self.mn}.{o(self.mx)}"
        if k == "i":
            return f"i.{self.fixed}.{o(self.mn)}.{o(self.mx)}.{int(self.signed)}"
        if k == "f":
            return f"f.{int(self.signed)}"
        if k == "a":
            return "a." + "|".join(cps(i) for i in self.items)
        return k


@dataclass(frozen=True)
class Seg:
    lit: str | None = None          # literal segment
    pre: str = ""
    conv: Conv | None = None
    name: str = ""
    post: str = ""

    def text(self) -> str:
        if self.lit is not None:
            return self.lit
        return f"{self.pre}<{self.conv.text()}:{self.name}>{self.post}"

    def enc(self) -> str:
        if self.lit is not None:
            return "L:" + cps(self.lit)
        return f"D:{cps(self.pre)}:{self.conv.enc()}:{cps(self.name)}:{cps(self.post)}"


@dataclass(frozen=True)
class RuleSpec:
    idx: int
    endpoint: int
    segs: tuple = ()
    tail: str | None = None
    branch: bool = False
    methods: tuple | None = None
    strict: bool | None = None
    merge: bool | None = None
    websocket: bool = False
    alias: bool = False
    defaults: tuple = ()            # ((name, value), ...)  value: int | str
    dom: Seg = Seg(lit="")
    build_only: bool = False        # Rule(build_only=True): not matched, provides no defaults, still built

    def string(self) -> str:
        items = [s.text() for s in self.segs] + ([f"<path:{self.tail}>"] if self.tail else [])
        if not items:
            return "/"
        return "/" + "/".join(items) + ("/" if self.branch else "")

    def is_branch(self) -> bool:
        return self.branch or not (self.segs or self.tail)

    def make(self, host_matching: bool = False):
        from werkzeug.routing import Rule
        kw = {}
        d = self.dom.text()
        if host_matching:
            kw["host"] = d
        elif d != "":
            kw["subdomain"] = d
        return Rule(self.string(), endpoint=f"e{self.endpoint}", methods=list(self.methods) if self.methods is not None else None,
                    strict_slashes=self.strict, merge_slashes=self.merge, websocket=self.websocket, alias=self.alias,
                    defaults=dict(self.defaults) if self.defaults else None, build_only=self.build_only, **kw)

    def enc(self) -> str:
        ob = lambda v: "~" if v is None else str(int(v))  # noqa: E731
        segs = "^".join(s.enc() for s in self.segs) if self.segs else "_"
        meths = "~" if self.methods is None else ("|".join(cps(x) for x in self.methods) if self.methods else "_")
        defs = "|".join(f"{cps(k)}=" + (f"I{v}" if isinstance(v, int) else "S" + cps(v)) for k, v in self.defaults) if self.defaults else "_"
        return ";".join([str(self.idx), str(self.endpoint), self.dom.enc(), segs, "~" if self.tail is None else cps(self.tail),
                         str(int(self.branch)), meths, ob(self.strict), ob(self.merge), str(int(self.websocket)),
                         str(int(self.alias)), defs])

    def convs(self):
        out = []
        for s in (self.dom,) + tuple(self.segs):
            if s.lit is None:
                out.append((s.name, s.conv))
        if self.tail:
            out.append((self.tail, Conv("p")))
        return out


@dataclass(frozen=True)
class MapSpec:
    rules: tuple
    strict: bool = True
    merge: bool = True
    redirect_defaults: bool = True
    host_matching: bool = False

    def cfg(self) -> str:
        return f"{int(self.strict)}{int(self.merge)}{int(self.redirect_defaults)}{int(self.host_matching)}"

    def enc(self) -> str:
        return "+".join(r.enc() for r in self.rules)

    def make(self):
        """(werkzeug Map, {id(Rule object): RuleSpec})"""
        from werkzeug.routing import Map
        objs = [r.make(self.host_matching) for r in self.rules]
        m = Map(objs, strict_slashes=self.strict, merge_slashes=self.merge,
                redirect_defaults=self.redirect_defaults, host_matching=self.host_matching)
        m._verif_objs = objs
        return m, {id(o): r for o, r in zip(objs, self.rules)}

    def describe(self) -> dict:
        return {"rules": [dict(rule=r.string(), endpoint=f"e{r.endpoint}", methods=r.methods, strict_slashes=r.strict,
                               merge_slashes=r.merge, subdomain_or_host=r.dom.text() or None, defaults=dict(r.defaults) or None,
                               alias=r.alias, websocket=r.websocket, build_only=r.build_only) for r in self.rules],
                "strict_slashes": self.strict, "merge_slashes": self.merge, "redirect_defaults": self.redirect_defaults,
                "host_matching": self.host_matching}


_PASS = None


def ref_urlencode(items) -> str:
    """urlencode as modelled in coq/C02/Model.v: str() of key and value, UTF-8, space -> '+', the bytes of
    urlencode_pass (coq/C02/Gen.v, regenerated from werkzeug.urls) unchanged, %XX otherwise; joined with '&'."""
    global _PASS
    if _PASS is None:
        with open(os.path.join(COQ, "C02", "Gen.v"), encoding="utf-8") as fh:
            m_ = re.search(r"Definition urlencode_pass : list \(N \* N\) := \[(.*?)\]%N", fh.read())
        _PASS = [tuple(int(x) for x in pr.split(",")) for pr in re.findall(r"\((\d+, \d+)\)", m_.group(1))]

    def qp(x) -> str:
        out = []
        for b in str(x).encode("utf-8"):
            if b == 32:
                out.append("+")
            elif any(lo <= b <= hi for lo, hi in _PASS):
                out.append(chr(b))
            else:
                out.append(f"%{b:02X}")
        return "".join(out)
    return "&".join(f"{qp(k)}={qp(v)}" for k, v in items)


@dataclass(frozen=True)
class Adapter:
    scheme: str = "http"
    server: str = "example.com"
    script: str = "/"
    subdomain: str | None = None
    query: object = None            # None | str | tuple of pairs (mapping)
    environ: bool = False           # bound with Map.bind_to_environ(create_environ(...)) instead of Map.bind
    host_suffix: str = ""           # environ only: the scheme's own default port spelled out in the Host header (":80" / ":443")
    default_sub: str | None = None  # Map.default_subdomain at bind time (used when subdomain is None)
    mismatch: bool = False          # environ only: the configured server_name is not a suffix of the Host -> subdomain "<invalid>"
    upgrade: bool = False           # environ only: Connection: Upgrade + Upgrade: websocket -> bound with ws (http) / wss (https)

    def eff_scheme(self) -> str:
        """the url_scheme the adapter ends up with (Map.bind_to_environ turns an upgrade request into ws / wss; pinned)"""
        if self.environ and self.upgrade:
            return "wss" if self.scheme == "https" else "ws"
        return self.scheme

    def eff_subdomain(self):
        """the subdomain the adapter ends up with (Map.bind / Map.bind_to_environ; pinned in the translator)"""
        if self.mismatch:
            return "<invalid>"
        if self.subdomain is None and self.default_sub is not None and not self.environ:
            return self.default_sub          # bind_to_environ always computes a subdomain ("" for the bare domain): no default there
        return self.subdomain

    def query_items(self):
        """the (key, value) items MapAdapter.encode_query_args has to encode, in the order iter_multi_items yields them:
        a mapping's values that are lists one item per element, a MultiDict grouped by key (its storage), a list of pairs as given."""
        q = self.query
        if not q or isinstance(q, str):
            return []
        if q and isinstance(q[0], str) and q[0].startswith("@"):
            kind, pairs = q[0], [tuple(x) for x in q[1]]
            if kind == "@pairs":
                return pairs
            keys = []
            for k, _ in pairs:
                if k not in keys:
                    keys.append(k)
            return [(k, v) for k in keys for k2, v in pairs if k2 == k]
        return list(dict(q).items())

    def query_object(self):
        """the object handed to Map.bind(query_args=...)"""
        from werkzeug.datastructures import ImmutableMultiDict, MultiDict
        q = self.query
        if isinstance(q, tuple) and q and isinstance(q[0], str) and q[0].startswith("@"):
            kind, pairs = q[0], [tuple(x) for x in q[1]]
            if kind == "@multidict":
                return MultiDict(pairs)
            if kind == "@immutable":
                return ImmutableMultiDict(pairs)
            if kind == "@pairs":
                return pairs
            d = {}
            for k, v in pairs:          # "@lists": a dict of lists (a single value stays a scalar)
                d.setdefault(k, []).append(v)
            return {k: (v[0] if len(v) == 1 and kind == "@lists1" else v) for k, v in d.items()}
        if isinstance(q, tuple):
            return dict(q)
        return q

    def query_str(self) -> str:
        """the bound query string: the string itself, or the urlencode of ALL items with a value - computed here from the
        pass-through table of coq/C02/Gen.v (the C02 model of werkzeug.urls._urlencode), not by werkzeug"""
        q = self.query
        if not q:
            return ""
        if isinstance(q, str):
            return q
        return ref_urlencode([(k, v) for k, v in self.query_items() if v is not None])

    def eff_script(self) -> str:
        # a WSGI server hands SCRIPT_NAME over without the trailing slash
        return self.script.rstrip("/") if self.environ else self.script

    def enc(self) -> str:
        return "|".join([cps(self.eff_scheme()), cps("other.invalid" if self.mismatch else self.server), cps(self.eff_script()),
                         "~" if self.eff_subdomain() is None else cps(self.eff_subdomain()), cps(self.query_str())])

    def make_environ(self, path: str = "/", method: str = "GET"):
        from werkzeug.test import create_environ
        host = (self.subdomain + "." if self.subdomain else "") + self.server + self.host_suffix
        q = self.query_str()
        hd = {"Connection": "Upgrade", "Upgrade": "websocket"} if self.upgrade else None
        return create_environ(path, f"{self.scheme}://{host}{self.script.rstrip('/')}/", query_string=q, method=method, headers=hd)

    def bind(self, m):
        q = self.query_object()
        old_default = m.default_subdomain
        if self.default_sub is not None:
            m.default_subdomain = self.default_sub
        try:
            if self.mismatch:
                import warnings
                with warnings.catch_warnings():
                    warnings.simplefilter("ignore")
                    return m.bind_to_environ(self.make_environ(), server_name="other.invalid")
            if self.environ:
                # what a WSGI application does: the query string reaches the router through the environ
                return m.bind_to_environ(self.make_environ(), server_name=self.server if self.subdomain is not None else None)
            return m.bind(self.server, self.script, self.subdomain, self.scheme, query_args=q)
        finally:
            m.default_subdomain = old_default


# ---------------------------------------------------------------- generators
LITS = ["a", "b", "ab", "x", "1", "12", "a.b", "é", "a+b", "007", "|", "a|b"]
PRE = ["", "", "", "a", "x", "-", "v.", "(", "|", "a|"]
ANY_ITEMS_PLAIN = ["a", "b", "ab", "x", "foo", "a.b", "x-y"]
ANY_ITEMS = ANY_ITEMS_PLAIN + [
             # quoted items with backslash sequences and quotes, kept verbatim by the rule parser
             "a\\tb", "\\n", "a\\\\b", "\\x41", "é", "it\\'s", 'q"x', "a b", "1,2"]
NAMES = ["p", "q", "r", "s", "t", "u", "v", "w"]
UUIDS = ["12345678-1234-5678-1234-567812345678", "ABCDEF01-aaaa-BBBB-cccc-0123456789ab"]


def gen_conv(rng, rich: bool = False) -> Conv:
    r = rng.random()
    if r < 0.22:
        return Conv("s")
    if r < 0.32:
        return Conv("s", exact=rng.choice([1, 2, 3]))
    if r < 0.40:
        mn = rng.choice([1, 2, 3])
        return Conv("s", mn=mn, mx=rng.choice([None, None, mn, mn + 1, mn + 3]))
    if r < 0.58:
        return Conv("i")
    if r < 0.68:
        return Conv("i", fixed=rng.choice([1, 2, 3]))
    if r < 0.76:
        lo = rng.choice([None, 0, 1, 5])
        return Conv("i", mn=lo, mx=rng.choice([None, 5, 12, 100]), signed=rng.random() < 0.3,
                    fixed=rng.choice([0, 0, 0, 2]))
    if r < 0.84:
        return Conv("f", signed=rich and rng.random() < 0.3)
    if r < 0.94:
        return Conv("a", items=tuple(rng.sample(ANY_ITEMS, rng.randint(1, 3))))
    return Conv("u")


def gen_rule(rng, idx: int, names=None, rich: bool = False) -> RuleSpec:
    """one rule of the C03 grammar; variable names are distinct within the rule."""
    pool = list(names or NAMES)
    rng.shuffle(pool)
    nseg = rng.choice([0, 1, 1, 2, 2, 2, 3])
    segs = []
    for _ in range(nseg):
        if rng.random() < 0.45:
            segs.append(Seg(lit=rng.choice(LITS)))
        else:
            segs.append(Seg(pre=rng.choice(PRE), conv=gen_conv(rng, rich), name=pool.pop(), post=rng.choice(PRE)))
    tail = pool.pop() if rng.random() < 0.18 else None
    branch = rng.random() < 0.4
    if not segs and tail is None:
        branch = True
    methods = None
    if rng.random() < 0.4:
        methods = spell_methods(rng, tuple(sorted(rng.sample(["GET", "POST", "PUT"], rng.randint(1, 2)))))
    return RuleSpec(idx=idx, endpoint=idx, segs=tuple(segs), tail=tail, branch=branch, methods=methods)


def spell_methods(rng, methods: tuple) -> tuple:
    """method names as applications write them: Rule.__init__ upper-cases them, then adds HEAD when GET is among them"""
    if rng.random() < 0.65:
        return methods
    return tuple(rng.choice([x.lower(), x.capitalize(), x]) for x in methods)


def variants_of(rng, r: RuleSpec, idx: int) -> RuleSpec:
    """a rule built to overlap with r: same shape, one piece changed."""
    segs = list(r.segs)
    c = rng.random()
    pool = [n for n in NAMES if n not in {s.name for s in segs} and n != r.tail]
    if segs and c < 0.5:
        i = rng.randrange(len(segs))
        if segs[i].lit is not None and rng.random() < 0.7:
            segs[i] = Seg(pre=rng.choice(PRE), conv=gen_conv(rng), name=pool.pop(), post=rng.choice(PRE))
        elif segs[i].lit is None:
            segs[i] = replace(segs[i], conv=gen_conv(rng), pre=rng.choice(PRE))
        else:
            segs[i] = Seg(lit=rng.choice(LITS))
        return replace(r, idx=idx, endpoint=idx, segs=tuple(segs))
    if c < 0.7:
        return replace(r, idx=idx, endpoint=idx, branch=(not r.branch) or not (segs or r.tail))
    if c < 0.8 and r.tail is None:
        return replace(r, idx=idx, endpoint=idx, tail=pool.pop(), segs=tuple(segs[:-1]) if segs and rng.random() < 0.5 else tuple(segs))
    if c < 0.9:
        m = spell_methods(rng, tuple(sorted(rng.sample(["GET", "POST", "PUT"], rng.randint(1, 2))))) if rng.random() < 0.7 else None
        return replace(r, idx=idx, endpoint=idx, methods=m)
    return gen_rule(rng, idx)


def gen_map(rng, nmax: int = 6, per_rule: bool = False) -> MapSpec:
    n = rng.choice([1, 2, 2, 3, 3, 3, 4, 4, 5, 6][:max(1, min(10, nmax + 4))])
    n = min(n, nmax)
    rules = [gen_rule(rng, 0)]
    while len(rules) < n:
        if rng.random() < 0.6:
            rules.append(variants_of(rng, rng.choice(rules), len(rules)))
        else:
            rules.append(gen_rule(rng, len(rules)))
    if per_rule:
        rules = [replace(r, strict=rng.choice([None, None, True, False]), merge=rng.choice([None, None, True, False])) for r in rules]
    return MapSpec(rules=tuple(rules), strict=rng.random() < 0.7, merge=rng.random() < 0.7)


VAL = {
    "s": ["a", "b", "ab", "abc", "12", "x", "1.5", "é", "a b", "٣", "a.b", "007", "abcd", "-5", "%41", "a\nb", "foo"],
    "i": ["1", "12", "007", "123", "٣", "5", "0", "99", "6"],
    "f": ["1.5", "0.25", "12.0", "٣.٥", "1.", ".5", "1.5.2"],
    "p": ["a", "a/b", "x/y/z", "a//b", "ab/", "a/b/", "é/1", "a\nb", "12"],
}


def gen_value(rng, c: Conv) -> str:
    k = c.kind
    if k == "a":
        return rng.choice(list(c.items) + ["zz"]) if rng.random() < 0.9 else rng.choice(ANY_ITEMS)
    if k == "u":
        return rng.choice(UUIDS) if rng.random() < 0.9 else "12345678-1234-5678-1234-56781234567"
    if k == "i":
        v = rng.choice(VAL["i"])
        if c.fixed and rng.random() < 0.6:
            v = "".join(rng.choice("0123456789") for _ in range(c.fixed))
        if c.signed and rng.random() < 0.4:
            v = "-" + v
        return v
    if k == "f":
        v = rng.choice(VAL["f"])
        return "-" + v if c.signed and rng.random() < 0.4 else v
    if k == "s" and c.exact is not None and rng.random() < 0.6:
        return "".join(rng.choice("abx1é") for _ in range(c.exact))
    return rng.choice(VAL[k])


def path_for(rng, r: RuleSpec) -> str:
    """a path built to hit rule r (most of the time)."""
    items = []
    for s in r.segs:
        items.append(s.lit if s.lit is not None else s.pre + gen_value(rng, s.conv) + s.post)
    if r.tail:
        items.append(gen_value(rng, Conv("p")))
    p = "/" + "/".join(items)
    if r.is_branch() and items:
        p += "/"
    return p


def mutate_path(rng, p: str) -> str:
    c = rng.random()
    if c < 0.18:      # toggle trailing slash
        return p[:-1] if p.endswith("/") and len(p) > 1 else p + "/"
    if c < 0.36:      # double a slash
        idx = [i for i, ch in enumerate(p) if ch == "/"]
        i = rng.choice(idx) if idx else 0
        return p[:i] + "/" * rng.choice([2, 2, 3, 4]) + p[i + 1:]
    if c < 0.46:      # leading slashes / host-like prefix
        return rng.choice(["/", "//", "//evil.com", "///"]) + p
    if c < 0.58:      # replace a segment
        parts = p.split("/")
        i = rng.randrange(len(parts))
        parts[i] = rng.choice(LITS + VAL["s"] + VAL["i"] + [""])
        return "/".join(parts)
    if c < 0.66:      # drop a segment
        parts = p.split("/")
        if len(parts) > 2:
            del parts[rng.randrange(1, len(parts))]
        return "/".join(parts)
    if c < 0.74:      # add a segment
        return p.rstrip("/") + "/" + rng.choice(LITS + VAL["s"]) + ("/" if p.endswith("/") else "")
    if c < 0.80:
        return p.lstrip("/")
    if c < 0.86:
        return p + rng.choice(["a", "1", "/x", "//"])
    return p


def gen_paths(rng, ms: MapSpec, n: int) -> list[str]:
    out = []
    for _ in range(n):
        c = rng.random()
        if c < 0.45:
            out.append(path_for(rng, rng.choice(ms.rules)))
        elif c < 0.92:
            out.append(mutate_path(rng, path_for(rng, rng.choice(ms.rules))))
        else:
            out.append("".join(rng.choice(["/", "/", "a", "b", "1", "2", "x", ".", "ab", "12"]) for _ in range(rng.randint(0, 7))))
    return out


# ---------------------------------------------------------------- implementation runner (canonical observation)
def canon_value(v) -> str:
    if isinstance(v, bool):
        return "?" + repr(v)
    if isinstance(v, int):
        return f"I{v}"
    if isinstance(v, float):
        return "F" + repr(v)
    if isinstance(v, _uuid.UUID):
        return "U" + v.hex
    if isinstance(v, str):
        return "S" + cps(v)
    return "?" + repr(v)


def canon_args(d: dict) -> str:
    return "|".join(f"{cps(k)}={canon_value(v)}" for k, v in sorted(d.items())) if d else "-"


def observe(a, rules_by_obj: dict, path, meth: str) -> str:
    """canonical observation of MapAdapter.match on a bound adapter (path None: the adapter's own PATH_INFO)."""
    from werkzeug.exceptions import MethodNotAllowed, NotFound
    from werkzeug.routing import RequestRedirect
    from werkzeug.routing.exceptions import WebsocketMismatch
    try:
        rule, args = with_timeout(a.match, 5.0, path, meth, return_rule=True)
    except RequestRedirect as e:
        return "R " + cps(e.new_url)
    except MethodNotAllowed as e:
        return "405 " + "|".join(sorted(cps(x) for x in set(e.valid_methods)))
    except WebsocketMismatch:
        return "WS"
    except NotFound:
        return "404"
    except ImplTimeout:
        return "TIMEOUT"
    except Exception as e:  # noqa: BLE001
        return "EXN " + type(e).__name__
    rs = rules_by_obj[id(rule)]
    return f"M {rs.idx} {rs.endpoint} {canon_args(dict(args))}"


def run_impl(m, ad: Adapter, rules_by_obj: dict, path: str, meth: str) -> str:
    return observe(ad.bind(m), rules_by_obj, path, meth)


def canon_model(line: str) -> str:
    """bring a model result line into the implementation's canonical form."""
    if line.startswith("405 "):
        return "405 " + "|".join(sorted(set(line[4:].split("|"))))
    if line.startswith("M "):
        _, idx, ep, args = line.split(" ")
        if args != "-":
            items = []
            for kv in args.split("|"):
                k, v = kv.split("=")
                if v.startswith("F"):
                    try:
                        v = "F" + repr(float(uncps(v[1:])))
                    except ValueError:
                        v = "F?"
                elif v.startswith("U"):
                    v = "U" + uncps(v[1:])
                items.append((uncps(k), f"{k}={v}"))
            args = "|".join(x for _, x in sorted(items))
        return f"M {idx} {ep} {args}"
    return line


# ---------------------------------------------------------------- the impl-level oracle (property statement in Python)
def _conv_regex(c: Conv) -> str:
    k = c.kind
    if k == "s":
        if c.exact is not None:
            return "[^/]{%d}" % c.exact
        return "[^/]{%d,%s}" % (1 if c.mn is None else c.mn, "" if c.mx is None else c.mx)
    if k == "i":
        return ("-?" if c.signed else "") + r"\d+"
    if k == "f":
        return ("-?" if c.signed else "") + r"\d+\.\d+"
    if k == "a":
        return "(?:" + "|".join(re.escape(i) for i in c.items) + ")"
    if k == "u":
        h = "[A-Fa-f0-9]"
        return f"{h}{{8}}-{h}{{4}}-{h}{{4}}-{h}{{4}}-{h}{{12}}"
    raise AssertionError(k)


def _conv_value(c: Conv, text: str):
    """converted value, or ValueError-like None when the converter rejects the text."""
    k = c.kind
    if k in "sap":
        return text
    if k == "u":
        return _uuid.UUID(text)
    if k == "i":
        if c.fixed and len(text) != c.fixed:
            return None
        v = int(text)
    else:
        v = float(text)
    if (c.mn is not None and v < c.mn) or (c.mx is not None and v > c.mx):
        return None
    return v


def prio_cmp(k1, k2) -> int:
    """-1: k1 is tried strictly before k2; 1: after; 0: equal or a tie.
    Keys are sequences of transitions (cls, weight, identity): literal (cls 0) before variable (cls 1, ordered by
    weight: more / longer literal text around the variable first, then int/float < string/any/uuid < path) before the
    late trailing-slash clause (cls 9).  Two different variable transitions of equal weight are a tie: their order
    is the insertion order, which the property does not pin.  A proper prefix comes first."""
    for a, b in zip(k1, k2):
        if a == b:
            continue
        if a[0] != b[0]:
            return -1 if a[0] < b[0] else 1
        if a[1] != b[1]:
            return -1 if a[1] < b[1] else 1
        return 0
    if len(k1) == len(k2):
        return 0
    return -1 if len(k1) < len(k2) else 1


def minimal(cands):
    return [c for c in cands if not any(prio_cmp(d[0], c[0]) < 0 for d in cands)]


class RuleOracle:
    """independent reading of one rule: a regular expression per rule (own construction from the
    structured rule, not werkzeug's), and its specificity key."""
    S_EMPTY = (0, (), "")
    LATE = (9, (), "")

    def __init__(self, r: RuleSpec, ms: MapSpec):
        self.r = r
        self.strict = ms.strict if r.strict is None else r.strict
        self.merge = ms.merge if r.merge is None else r.merge
        pieces, key = [], []
        self.convs = []

        def seg_rx(s: Seg):
            if s.lit is not None:
                return re.escape(s.lit), (0, (), s.lit)
            g = f"g{len(self.convs)}"
            self.convs.append((s.name, s.conv, g))
            sw = []
            if s.pre:
                sw.append((len(sw), -len(s.pre)))
            if s.post:
                sw.append((len(sw), -len(s.post)))
            crx = _conv_regex(s.conv)
            return (re.escape(s.pre) + f"(?P<{g}>{crx})" + re.escape(s.post),
                    (1, (-len(sw), tuple(sw), -1, (WEIGHTS[s.conv.kind],)), (s.pre, crx, s.post, False)))
        drx, dkey = seg_rx(r.dom)
        self.dom_rx = re.compile(drx + r"\Z", re.S)
        key.append(dkey)
        key.append(self.S_EMPTY)          # the leading slash
        for s in r.segs:
            rx, k = seg_rx(s)
            pieces.append(rx)
            key.append(k)
        body = "/" + "/".join(pieces)
        self.has_tail = r.tail is not None
        self.branch = r.is_branch()
        if self.has_tail:
            g = f"g{len(self.convs)}"
            self.convs.append((r.tail, Conv("p"), g))
            key.append((1, (0, (), -1, (WEIGHTS["p"],)), ("", "path", "", self.branch)))
            sep = "" if not pieces else "/"
            if self.branch:
                # the value may not begin or end with a slash
                body += sep + f"(?P<{g}>[^/](?:.*[^/])?)"
            else:
                body += sep + f"(?P<{g}>[^/].*)"
        self.key_leaf = tuple(key)                         # transitions up to the rule's last non-slash piece
        self.body = body if (pieces or self.has_tail) else ""
        self.rx_noslash = re.compile(self.body + r"\Z", re.S)
        self.rx_slash = re.compile(self.body + r"/\Z", re.S)
        self.rx_slash2 = re.compile(self.body + r"//\Z", re.S)

    def _values(self, mdom, mpath):
        out = {}
        for name, c, g in self.convs:
            txt = mdom.group(g) if g in mdom.groupdict() else mpath.group(g)
            v = _conv_value(c, txt)
            if v is None:
                return None
            out[name] = v
        out.update(dict(self.r.defaults))
        return out

    def admits(self, domain: str, path: str):
        """list of (key, kind, values): kind 'direct' | 'slash'."""
        md = self.dom_rx.match(domain)
        if md is None:
            return []
        S, LATE = self.S_EMPTY, self.LATE
        out = []

        def add(kind, key, m):
            vals = self._values(md, m)
            if vals is not None:
                out.append((key, kind, vals))
        if self.branch:
            m = self.rx_slash.match(path)
            if m:
                add("direct", self.key_leaf + (S,), m)
            m = self.rx_noslash.match(path)
            if m:
                add("slash" if self.strict else "direct", self.key_leaf + (S,), m)
            if not self.strict and not self.has_tail:
                m = self.rx_slash2.match(path)
                if m:
                    add("direct", self.key_leaf + (S, LATE), m)
        else:
            m = self.rx_noslash.match(path)
            if m:
                add("direct", self.key_leaf, m)
            if not self.strict and not self.has_tail:
                m = self.rx_slash.match(path)
                if m:
                    add("direct", self.key_leaf + (LATE,), m)
        return out


def merged(path: str) -> str:
    """the documented merge: what re.sub('/{2,}?', '/', path) does, written as a scan"""
    out, i = [], 0
    while i < len(path):
        if path[i] == "/" and i + 1 < len(path) and path[i + 1] == "/":
            out.append("/")
            i += 2
        else:
            out.append(path[i])
            i += 1
    return "".join(out)


def method_ok(r: RuleSpec, meth: str) -> bool:
    if r.methods is None:
        return True
    ms = {x.upper() for x in r.methods}
    if "GET" in ms:
        ms.add("HEAD")
    return meth in ms


def eff_methods(r: RuleSpec) -> set:
    ms = {x.upper() for x in r.methods}
    if "GET" in ms:
        ms.add("HEAD")
    return ms


def oracle_outcomes(ms: MapSpec, oracles: list, domain: str, path_part: str, meth: str, ws: bool):
    """the set of outcomes the property allows: ('M', idx, args) | ('RP', new_path) | ('405', frozenset) | ('404',) | ('WS',)
    plus a flag telling whether a 405's method set is pinned exactly."""
    def cands(path):
        cs = []
        for o in oracles:
            for key, kind, vals in o.admits(domain, path):
                cs.append((key, kind, o, vals))
        return cs

    def bookkeeping(cs, hm):
        w = False
        for key, kind, o, vals in cs:
            if kind == "direct":
                if not method_ok(o.r, meth):
                    hm |= eff_methods(o.r)
                elif o.r.websocket != ws:
                    w = True
        return w
    c1 = cands(path_part)
    ok1 = [c for c in c1 if method_ok(c[2].r, meth) and c[2].r.websocket == ws]
    if ok1:
        return {("M", o.r.idx, canon_args(vals)) if kind == "direct" else ("RP", path_part + "/", o.r.idx, canon_args(vals))
                for key, kind, o, vals in minimal(ok1)}, True
    hm = set()
    wsm = bookkeeping(c1, hm)
    exact = True
    if ms.merge:
        p2 = merged(path_part)
        c2 = cands(p2)
        ok2 = [c for c in c2 if method_ok(c[2].r, meth) and c[2].r.websocket == ws]
        if ok2:
            out = set()
            for key, kind, o, vals in minimal(ok2):
                if kind == "slash":
                    out.add(("RP", p2 + "/", o.r.idx, canon_args(vals)))
                elif o.merge:
                    out.add(("RP", p2, o.r.idx, canon_args(vals)))
                else:
                    exact = False      # a rule with merge_slashes=False ends the search with the methods seen so far
                    out.add(("NOMATCH",))
            if ("NOMATCH",) not in out:
                return out, True
            # the search ends at a rule that refuses merged slashes: NoMatch with the methods recorded up to there
            out.discard(("NOMATCH",))
            wsm = bookkeeping(c2, hm) or wsm
            if hm:
                out.add(("405", frozenset(hm)))
            out.add(("WS",) if wsm else ("404",))
            out.add(("404",))
            return out, False
        wsm = bookkeeping(c2, hm) or wsm
    if hm:
        return {("405", frozenset(hm))}, exact
    if wsm:
        return {("WS",)}, exact
    return {("404",)}, exact


# ====================================================================== C03 check
PID = "C03"
CLAIM = dict(
    text="Coq theorems (Qed, closed under the global context) over an executable model of werkzeug.routing matching - Rule._parse_rule "
         "parts and Weighting over the C03 rule grammar, StateMachineMatcher.add/update/_match as a generic transition tree, converter "
         "languages and to_python, MapAdapter.match: C03_sound / C03_redirect_sound (a reported match or slash / merged-slash redirect is "
         "justified by a rule of the map that admits the path with exactly the converted arguments), C03_complete (the outcome is classified "
         "exactly by what the rules admit: 404 only when no rule serves the path, 405 with exactly the methods of the rules admitting it for "
         "another method), C03_priority / C03_priority_any_order (the reported rule is minimal for the documented, insertion-order independent "
         "specificity order among the serving candidates). Tied to the code by regenerated converter regexes / weights / decision functions "
         "and statement pins (coq/C03/Gen.v) and by differential execution of the extracted model against werkzeug on maps x every insertion "
         "order x paths x methods, with compiled-part and transition-tree checkpoints and an independent per-rule-regex + specificity-order oracle.",
    note="Trusted: Coq kernel; translator tools/c03.py; ExtrOcamlBasic extraction + driver; converter regex languages are hand-written "
         "predicates (regex texts pinned by Gen.v, validated differentially); float() and uuid.UUID() values are carried as text; list.sort "
         "stability modelled by insertion sort; rules outside the C03 grammar (several converters per segment, path converter before the last "
         "segment, '//' in rules, duplicate variable names) are outside the model, redirect_to is modelled in C12; C03_complete assumes merge_slashes set at map level.",
    design="6/C03")

SAFE = "!$&'()*+,/:;=@"


def expected_url(ad: Adapter, ms: MapSpec, new_path: str, domain: str | None = None) -> str:
    """where a router-issued redirect must point: bound scheme, host, script root, then the path; query kept."""
    from urllib.parse import quote
    if ms.host_matching:
        host = ad.server if domain is None else domain
    else:
        sub = (ad.eff_subdomain() or "") if domain is None else domain
        host = f"{sub}.{ad.server}" if sub else ad.server
    root = ad.script.strip("/")
    url = f"{ad.eff_scheme() or 'http'}://{host}/" + (root + "/" if root else "") + quote(new_path, safe=SAFE).lstrip("/")
    q = ad.query_str()
    return url + ("?" + q if q else "")


def real_parts_text(rule) -> str:
    out = []
    for p in rule._parts:
        w = p.weight
        out.append(";".join([cps(p.content), str(p.final).lower(), str(p.static).lower(), str(p.suffixed).lower(),
                             str(w.number_static_weights), ",".join(f"{a}:{b}" for a, b in w.static_weights),
                             str(w.number_argument_weights), ",".join(str(a) for a in w.argument_weights)]))
    return "+".join(out)


def real_trie_text(m, by_obj) -> str:
    m.update()

    def go(st, out):
        out.append("[")
        out.extend(f"r{by_obj[id(r)].idx}" for r in st.rules)
        out.append("|")
        for k, c in st.static.items():
            out.append("s" + cps(k))
            go(c, out)
        out.append("|")
        for part, c in st.dynamic:
            out.append("d" + cps(part.content))
            go(c, out)
        out.append("]")
    out: list[str] = []
    go(m._matcher._root, out)
    return " ".join(out)


def domain_part(ms: MapSpec, ad: Adapter) -> str:
    if not ms.host_matching:
        return ad.eff_subdomain() if ad.eff_subdomain() is not None else ""     # Map.bind: default_subdomain
    return ad.server.lower()


def judge(ms: MapSpec, oracles, ad: Adapter, path: str, meth: str, impl: str):
    """compare one implementation observation with the property.  Returns None or (key, what)."""
    pp = "/" + path.lstrip("/") if path else ""
    ws = ad.eff_scheme() in ("ws", "wss")
    allowed, exact = oracle_outcomes(ms, oracles, domain_part(ms, ad), pp, meth.upper(), ws)
    kinds = sorted({a[0] for a in allowed})
    if impl.startswith("M "):
        _, idx, ep, args = impl.split(" ")
        if ("M", int(idx), args) in allowed:
            return None
        if any(a[0] == "M" and a[1] == int(idx) for a in allowed):
            return "wrong-arguments", f"rule {idx} reported with arguments {args}, the rule's pattern gives {sorted(a[2] for a in allowed if a[0] == 'M')}"
        if any(a[0] == "M" for a in allowed) or "RP" in kinds:
            return "priority", f"rule {idx} reported, but a more specific rule admits the path: allowed {sorted(map(repr, allowed))}"
        return "match-not-admitted", f"rule {idx} reported with {args}, but no rule admits the path for this method (expected {kinds})"
    if impl.startswith("R "):
        url = uncps(impl[2:])
        for a in allowed:
            if a[0] == "RP" and expected_url(ad, ms, a[1]) == url:
                return None
        if "RP" in kinds:
            return "redirect-target", f"redirect to {url!r}, expected {[expected_url(ad, ms, a[1]) for a in allowed if a[0] == 'RP']}"
        return "redirect-unjustified", f"redirect to {url!r}, but the property expects {sorted(map(repr, allowed))}"
    if impl.startswith("405"):
        got = frozenset(uncps(x) for x in impl[4:].split("|")) if len(impl) > 4 else frozenset()
        for a in allowed:
            if a[0] == "405" and (a[1] == got or (not exact and got <= a[1] and got)):
                return None
        if "405" in kinds:
            return "405-methods", f"allowed methods {sorted(got)}, expected {[sorted(a[1]) for a in allowed if a[0] == '405']}"
        return "405-unjustified", f"MethodNotAllowed {sorted(got)}, but the property expects {sorted(map(repr, allowed))}"
    if impl == "404":
        if ("404",) in allowed:
            return None
        if "M" in kinds or "RP" in kinds:
            return "notfound-though-admitted", f"NotFound, but a rule admits the path: {sorted(map(repr, allowed))}"
        return "notfound-instead-of-" + kinds[0], f"NotFound, expected {sorted(map(repr, allowed))}"
    if impl == "WS":
        return None if ("WS",) in allowed else ("ws-mismatch-unjustified", f"WebsocketMismatch, expected {sorted(map(repr, allowed))}")
    return "exception", f"implementation raised / hung: {impl}"


def _r(i, *segs, tail=None, branch=False, methods=None, **kw):
    return RuleSpec(idx=i, endpoint=i, segs=tuple(segs), tail=tail, branch=branch, methods=methods, **kw)


def L(s):
    return Seg(lit=s)


def D(conv, name, pre="", post=""):
    return Seg(pre=pre, conv=conv, name=name, post=post)


def corpus_c03():
    """fixed (map, paths, methods): the probed defects (fixed by 0f9d43b) and the tie families of DESIGN.md."""
    I, S, P = Conv("i"), Conv("s"), None
    out = []
    out.append((MapSpec((_r(0, D(Conv("i", fixed=3), "a")), _r(1, D(S, "b")))), ["/12", "/123", "/1234", "/x"], ["GET"]))
    out.append((MapSpec((_r(0, D(Conv("i", mx=5), "a")), _r(1, D(S, "b")))), ["/9", "/5", "/x"], ["GET"]))
    out.append((MapSpec((_r(0, D(Conv("i", mx=5), "a"), branch=True),)), ["/9", "/9/", "/3", "/3/", "/3//"], ["GET"]))
    out.append((MapSpec((_r(0, D(Conv("i", mx=5), "a"), L("x")),)), ["/9//x", "/9/x", "/3//x", "/3/x"], ["GET"]))
    out.append((MapSpec((_r(0, D(Conv("i", mx=5), "a"), methods=("POST",)),)), ["/9", "/3"], ["GET", "POST"]))
    out.append((MapSpec((_r(0, D(Conv("a", items=("a", "b")), "x")), _r(1, D(S, "y")))), ["/a", "/c"], ["GET"]))
    out.append((MapSpec((_r(0, D(Conv("s", exact=2), "x")), _r(1, D(S, "y")))), ["/ab", "/abc"], ["GET"]))
    out.append((MapSpec((_r(0, D(S, "x", pre="a")), _r(1, D(S, "y", post="b")))), ["/ab", "/aab", "/b"], ["GET"]))
    out.append((MapSpec((_r(0, D(S, "x"), tail="p", branch=True), _r(1, D(S, "x"), tail="p"))), ["/a/b", "/a/b/", "/a/b//", "/a/b/c"], ["GET"]))
    out.append((MapSpec((_r(0, L("a"), branch=True), _r(1, D(S, "x")), _r(2, L("a")))), ["/a", "/a/", "/a//", "/a///", "//a"], ["GET"]))
    out.append((MapSpec((_r(0, L("a"), L("b")),)), ["/a///b", "/a//b", "/a/b", "//a/b", "/a/b//"], ["GET"]))
    out.append((MapSpec((_r(0, branch=True), _r(1, tail="p"))), ["", "/", "//", "/a", "/a/", "/a\nb", "x"], ["GET", "POST"]))
    out.append((MapSpec((_r(0, L("a"), methods=("GET",)), _r(1, L("a"), methods=("POST",)), _r(2, D(S, "x"), methods=("PUT",)))),
                ["/a", "/a/", "/b"], ["GET", "HEAD", "POST", "PUT", "DELETE"]))
    out.append((MapSpec((_r(0, L("a"), branch=True, methods=("POST",)), _r(1, L("a"), L("b"), methods=("POST",))), merge=True),
                ["/a", "/a//b", "/a/"], ["GET", "POST"]))
    out.append((MapSpec((_r(0, L("a"), branch=True), _r(1, L("b"))), strict=False), ["/a", "/a/", "/a//", "/b", "/b/", "/b//"], ["GET"]))
    out.append((MapSpec((_r(0, D(Conv("f"), "x")), _r(1, D(Conv("u"), "u")), _r(2, D(Conv("i", signed=True), "n")))),
                ["/1.5", "/" + UUIDS[0], "/" + UUIDS[1], "/-5", "/٣", "/٣.٥", "/--5"], ["GET"]))
    return out


def run_cases(chk: Check, cases, label: str, lines: list, expect: list, meta: list, perm_cap: int = 24):
    """cases: iterable of (MapSpec, paths, methods, adapter).  Runs the implementation, the oracles, and queues model lines."""
    for ms, paths, meths, ad in cases:
        n = len(ms.rules)
        if n <= 4:
            perms = list(itertools.permutations(range(n)))
            if len(perms) > perm_cap:
                perms = [perms[0]] + chk.rng.sample(perms[1:], perm_cap - 1)
        else:
            perms = [tuple(range(n))] + [tuple(chk.rng.sample(range(n), n)) for _ in range(3)]
        oracles = [RuleOracle(r, ms) for r in ms.rules]
        for pi, perm in enumerate(perms):
            msp = replace(ms, rules=tuple(ms.rules[i] for i in perm))
            try:
                m, by_obj = msp.make()
            except Exception as e:  # noqa: BLE001
                chk.fail("map-construction", f"Map construction raised {type(e).__name__}: {e}", {"map": msp.describe()})
                continue
            if pi == 0:
                lines.append(f"parts {msp.cfg()} {msp.enc()}")
                expect.append(" ".join(real_parts_text(o) for o in m._verif_objs))
                meta.append(("parts", msp, None, None, ad))
            lines.append(f"trie {msp.cfg()} {msp.enc()}")
            expect.append(real_trie_text(m, by_obj))
            meta.append(("trie", msp, None, None, ad))
            for path in paths:
                for meth in meths:
                    impl = run_impl(m, ad, by_obj, path, meth)
                    bad = judge(ms, oracles, ad, path, meth, impl)
                    kind = impl.split(" ")[0]
                    chk.count(f"{label}:{kind}")
                    if bad:
                        chk.fail(bad[0], bad[1], {"map": msp.describe(), "adapter": ad.__dict__ if hasattr(ad, "__dict__") else repr(ad),
                                                  "path": path, "method": meth, "observed": impl if not impl.startswith("R ") else "R " + uncps(impl[2:]),
                                                  "mapspec": msp.enc(), "cfg": msp.cfg()})
                    chk.case((label, msp.cfg(), msp.enc(), ad.enc(), path, meth), nontrivial=kind != "404" or len(path) > 1,
                             sample={"rules": [r.string() for r in msp.rules], "path": path, "method": meth, "impl": impl[:60]})
                    lines.append(f"match {msp.cfg()} {msp.enc()} {ad.enc()} {cps(meth)} {cps(path)}")
                    expect.append(impl)
                    meta.append(("match", msp, path, meth, ad))


def weight_family(rng) -> MapSpec:
    """rules that compete at one position behind a common literal: the converter weights against each other, literal
    text against a variable, a variable with a literal prefix (v<int:ver>) against a bare one - wide rules first or not."""
    head = Seg(lit=rng.choice(["item", "x", "a.b"]))
    cands = [
        (Seg(conv=Conv("s"), name="name"),), (Seg(conv=Conv("i"), name="id"),), (Seg(conv=Conv("i"), name="ver", pre="v"),),
        (Seg(conv=Conv("f"), name="f"),), (Seg(conv=Conv("u"), name="u"),), (Seg(conv=Conv("a", items=("a", "new", "12")), name="x"),),
        (Seg(lit="new"),), (Seg(lit="12"),), (Seg(conv=Conv("s", exact=2), name="s2"),), (Seg(conv=Conv("i", fixed=2), name="n2"),),
        (Seg(conv=Conv("s"), name="pre", pre="v"),), (Seg(conv=Conv("i"), name="id", post=".json"),), "tail",
        (Seg(conv=Conv("s"), name="name"), Seg(lit="edit")), (Seg(conv=Conv("i"), name="id"), Seg(lit="edit")),
    ]
    picks = rng.sample(cands, rng.randint(2, 5))
    if rng.random() < 0.6:
        # the widest rule first: what a later, narrower rule has to overtake
        picks.sort(key=lambda c: 0 if c == "tail" else (1 if c[0].lit is None and c[0].conv.kind == "s" and not c[0].pre else 2))
    rules = []
    for i, c in enumerate(picks):
        if c == "tail":
            rules.append(RuleSpec(idx=i, endpoint=i, segs=(head,), tail="p"))
        else:
            rules.append(RuleSpec(idx=i, endpoint=i, segs=(head,) + c, branch=rng.random() < 0.2))
    return MapSpec(rules=tuple(rules), strict=rng.random() < 0.8, merge=rng.random() < 0.8)


def run_incremental(chk: Check, cases, lines: list, expect: list, meta: list) -> None:
    """a map that is used before it is complete: built from a prefix of the rules, matched (which sorts the transition
    tree), then grown with Map.add one rule at a time with requests in between.  Every answer is judged by the oracles and
    compared with the model's answer for the map holding the rules added so far - the model has no notion of when a rule
    was added (C03_priority_any_order)."""
    from werkzeug.routing import Map
    for ms, paths, meths, ad in cases:
        n = len(ms.rules)
        if n < 2:
            continue
        objs = [r.make(ms.host_matching) for r in ms.rules]
        by_obj = {id(o): r for o, r in zip(objs, ms.rules)}
        k = chk.rng.randint(1, n - 1)
        try:
            m = Map(objs[:k], strict_slashes=ms.strict, merge_slashes=ms.merge, redirect_defaults=ms.redirect_defaults,
                    host_matching=ms.host_matching)
        except Exception as e:  # noqa: BLE001
            chk.fail("map-construction", f"Map construction raised {type(e).__name__}: {e}", {"map": ms.describe()})
            continue
        for j in range(k, n + 1):
            msj = replace(ms, rules=ms.rules[:j])
            oracles = [RuleOracle(r, msj) for r in msj.rules]
            for path in paths:
                for meth in meths:
                    impl = run_impl(m, ad, by_obj, path, meth)
                    bad = judge(msj, oracles, ad, path, meth, impl)
                    chk.count(f"incremental:{impl.split(' ')[0]}")
                    if bad:
                        chk.fail(bad[0] + "-after-add", f"map used with {k} rule(s), then grown by Map.add to {j}: " + bad[1],
                                 {"map": msj.describe(), "built_with": k, "adapter": ad.__dict__, "path": path, "method": meth,
                                  "observed": impl if not impl.startswith("R ") else "R " + uncps(impl[2:]), "mapspec": msj.enc(), "cfg": msj.cfg()})
                    chk.case(("incremental", msj.cfg(), msj.enc(), k, path, meth), nontrivial=j > k and impl.split(" ")[0] != "404")
                    lines.append(f"match {msj.cfg()} {msj.enc()} {ad.enc()} {cps(meth)} {cps(path)}")
                    expect.append(impl)
                    meta.append(("match", msj, path, meth, ad))
            lines.append(f"trie {msj.cfg()} {msj.enc()}")
            expect.append(real_trie_text(m, by_obj))
            meta.append(("trie", msj, None, None, ad))
            if j < n:
                try:
                    m.add(objs[j])
                except Exception as e:  # noqa: BLE001
                    chk.fail("map-construction", f"Map.add raised {type(e).__name__}: {e}", {"map": ms.describe()})
                    break


def make_wrapped(ms: MapSpec, rng):
    """the map built through rule factories: every rule is created with ALL its options spelled out (also the falsy ones:
    strict_slashes=False, merge_slashes=False, websocket, methods, defaults, subdomain) and reaches the map as the copy
    Rule.empty() makes inside Submount / Subdomain / EndpointPrefix.  The factories rewrite one attribute each
    (coq/C04/Factories.v); everything else - the tri-state flags in particular - must survive.  (Map, by_obj)"""
    from werkzeug.routing import EndpointPrefix, Map, Subdomain, Submount
    facs = []
    for r in ms.rules:
        inner, wraps = r, []
        if r.segs and r.segs[0].lit is not None and (r.segs[1:] or r.tail or r.branch) and rng.random() < 0.6:
            rest = r.segs[1:]
            inner = replace(r, segs=rest, branch=bool(r.branch and (rest or r.tail)))
            wraps.append(lambda x, k=r.segs[0].lit: Submount("/" + k, [x]))
        if not ms.host_matching and rng.random() < 0.6:
            d = r.dom.text()
            inner = replace(inner, dom=Seg(lit="")) if rng.random() < 0.5 else inner
            wraps.append(lambda x, d=d: Subdomain(d, [x]))
        if rng.random() < 0.4 or not wraps:
            wraps.append(lambda x: EndpointPrefix("", [x]))
        fac = inner.make(ms.host_matching)
        for w in wraps:
            fac = w(fac)
        facs.append(fac)
    m = Map(facs, strict_slashes=ms.strict, merge_slashes=ms.merge, redirect_defaults=ms.redirect_defaults, host_matching=ms.host_matching)
    specs = {(r.string(), f"e{r.endpoint}"): r for r in ms.rules}
    by = {id(ro): specs[(ro.rule, ro.endpoint)] for ro in m.iter_rules()}
    m._verif_objs = list(m.iter_rules())
    return m, by


def run_factory_maps(chk: Check, cases, lines: list, expect: list, meta: list) -> None:
    """maps built through the rule factories against the oracles and the model of the flattened map"""
    for ms, paths, meths, ad in cases:
        try:
            m, by_obj = make_wrapped(ms, chk.rng)
        except Exception as e:  # noqa: BLE001
            chk.fail("map-construction", f"Map construction through factories raised {type(e).__name__}: {e}", {"map": ms.describe()})
            continue
        oracles = [RuleOracle(r, ms) for r in ms.rules]
        for path in paths:
            for meth in meths:
                impl = run_impl(m, ad, by_obj, path, meth)
                bad = judge(ms, oracles, ad, path, meth, impl)
                chk.count(f"factories:{impl.split(' ')[0]}")
                if bad:
                    chk.fail(bad[0] + "-through-factories", "the rules reach the map through Submount / Subdomain / EndpointPrefix: " + bad[1],
                             {"map": ms.describe(), "adapter": ad.__dict__, "path": path, "method": meth,
                              "observed": impl if not impl.startswith("R ") else "R " + uncps(impl[2:]), "mapspec": ms.enc(), "cfg": ms.cfg()})
                chk.case(("factories", ms.cfg(), ms.enc(), ad.enc(), path, meth), nontrivial=impl.split(" ")[0] != "404")
                lines.append(f"match {ms.cfg()} {ms.enc()} {ad.enc()} {cps(meth)} {cps(path)}")
                expect.append(impl)
                meta.append(("match", ms, path, meth, ad))


def compare_model(chk: Check, sub: str, lines, expect, meta, canon=canon_model):
    exe = chk.build_modelrun(sub)
    if not exe:
        return
    res = chk.run_model(exe, lines)
    if res is None:
        return
    mism = 0
    for ln, want, got, mt in zip(lines, expect, res, meta):
        g = canon(got) if mt[0] == "match" else got
        if g == "UNSUPPORTED":
            chk.count("model:unsupported(builder value types)")
            continue
        if g != want:
            mism += 1
            if mism <= 5:
                kind, msp, path, meth, ad = mt
                w, gg = want, g
                if kind == "match" and want.startswith("R ") and g.startswith("R "):
                    w, gg = "R " + uncps(want[2:]), "R " + uncps(g[2:])
                chk.broken("correspondence", f"{sub} model vs werkzeug routing ({kind})",
                           f"rules {[r.string() for r in msp.rules]} cfg {msp.cfg()} path {path!r} method {meth}: impl {w[:300]!r} model {gg[:300]!r}",
                           case={"line": ln, "impl": want, "model": got})
    chk.count("model:compared", len(lines))
    chk.count("model:mismatches", mism)


def run(chk: Check) -> None:
    rng = chk.rng
    quick = chk.tier == "quick"
    ad = Adapter()
    lines, expect, meta = [], [], []
    run_cases(chk, load_corpus("C03"), "corpus", lines, expect, meta)
    # maps of 1..4 rules: every insertion order; 5..6 rules: four orders
    n_small = 260 if quick else 4000
    n_big = 60 if quick else 900
    cases = []
    for _ in range(n_small):
        ms = gen_map(rng, nmax=4)
        cases.append((ms, gen_paths(rng, ms, 6), rng.sample(["GET", "POST", "HEAD", "PUT", "DELETE"], 2), ad))
    for _ in range(n_big):
        ms = gen_map(rng, nmax=6)
        if len(ms.rules) < 5:
            ms = replace(ms, rules=ms.rules + tuple(variants_of(rng, rng.choice(ms.rules), len(ms.rules) + i) for i in range(5 - len(ms.rules))))
            ms = replace(ms, rules=tuple(replace(r, idx=i, endpoint=i) for i, r in enumerate(ms.rules)))
        cases.append((ms, gen_paths(rng, ms, 12), rng.sample(["GET", "POST", "HEAD", "PUT", "DELETE"], 2), ad))
    run_cases(chk, cases, "grammar", lines, expect, meta, perm_cap=24 if quick else 24)
    # maps that are used while they grow (Map.add after the first match)
    inc = []
    for i in range(300 if quick else 4500):
        ms = weight_family(rng) if i % 2 == 0 else gen_map(rng, nmax=5)
        if i % 2 == 1:
            ms = replace(ms, rules=tuple(chk.rng.sample(list(ms.rules), len(ms.rules))))
            ms = replace(ms, rules=tuple(replace(r, idx=j) for j, r in enumerate(ms.rules)))
        inc.append((ms, gen_paths(rng, ms, 6), [rng.choice(["GET", "GET", "POST"])], ad))
    run_incremental(chk, inc, lines, expect, meta)
    # maps whose rules arrive through rule factories, with per-rule options set to the opposite of the map's
    fcases = []
    for i in range(260 if quick else 4000):
        ms = gen_map(rng, nmax=4, per_rule=True)
        rules = []
        for j, r in enumerate(ms.rules):
            r = replace(r, idx=j, endpoint=j)
            if rng.random() < 0.5:
                r = replace(r, strict=not ms.strict)            # the opposite of the map: False on a strict map
            if rng.random() < 0.5:
                r = replace(r, merge=not ms.merge)
            if rng.random() < 0.25:
                r = replace(r, websocket=True, methods=None if r.methods is None or rng.random() < 0.5 else ("GET",))
            if rng.random() < 0.3:
                r = replace(r, dom=Seg(lit=rng.choice(["", "api"])))
            rules.append(r)
        ms = replace(ms, rules=tuple(rules))
        fad = Adapter(scheme=rng.choice(["http", "ws"]) if any(r.websocket for r in rules) else "http",
                      subdomain=rng.choice([None, "api"]) if any(r.dom.text() for r in rules) else None)
        fcases.append((ms, gen_paths(rng, ms, 6), [rng.choice(["GET", "GET", "POST", "HEAD"])], fad))
    run_factory_maps(chk, fcases, lines, expect, meta)
    compare_model(chk, "C03", lines, expect, meta)


def main(chk: Check) -> None:
    try:
        write_gen("C03")
    except px.Unsupported as e:
        chk.broken("translator", "C03/Gen.v", str(e))
    chk.forbidden_scan()
    if chk.coq_make(["C03/Proofs.vo", "C03/PrioProofs.vo", "C03/Extract.vo"]):
        chk.audit_props("C03/Props.v")
    else:
        chk.cov["obligations"] += 1
    chk.trusted += [
        "translator tools/c03.py + tools/pyextract.py (converter regex texts, weights, part_isolating, safe= strings, NumberConverter rejection tests as T2 decision functions, statement pins of _parse_rule / add / update / _match / MapAdapter.match / make_redirect_url; Unicode \\d runs, re.escape specials and urllib.parse.uses_netloc tabulated from the interpreter)",
        "statement pins tools/pins/c03_matcher.txt, c03_converters.txt, c03_rules.txt, c03_map.txt, c03_glue.txt: whole functions / classes of routing/matcher.py "
        "(State, StateMachineMatcher), converters.py (all converter classes), rules.py (grammar regexes, parse_converter_args, Weighting, RulePart, the rule "
        "factories, Rule.__init__ .. build_compare_key), map.py (Map.__init__ / add / update / bind / bind_to_environ, MapAdapter.__init__ / match / get_host / "
        "get_default_redirect / encode_query_args / make_redirect_url / make_alias_redirect_url / _partial_build / build), urls._urlencode, iter_multi_items - "
        "compared as normalised source text with holes at the translated expressions; the hand-written models were written against these texts",
        "validated differentially only (CPython library code, not werkzeug code, so no pin): the re engine on the generated regexes, str.split / join / "
        "lstrip, list.sort, dict order, urllib.parse quote / unquote / urlunsplit / urljoin / urlencode / parse_qsl, string.Template.substitute, uuid.UUID, "
        "int() / float() / str(); routing/exceptions.py (RequestRedirect, NoMatch, ...) only carries the outcome to the harness",
        "extraction ExtrOcamlBasic + tools/conv.ml + coq/C03/driver.ml, OCaml 4.13.1",
        "converter regex languages as hand-written predicates (Appendix A: literal . converter . literal \\Z has a unique middle), validated differentially against CPython re through werkzeug",
        "list.sort(key=weight) modelled by a stable insertion sort; dict lookup of static transitions by an association list with unique keys",
        "float(text) and uuid.UUID(text) are not computed in the model: the captured text is compared after applying them on the Python side",
        "urllib.parse.quote / urlunsplit / str.encode('utf-8') hand-modelled (validated differentially)",
    ]
    run(chk)
    chk.finish(rule="maps of 1..6 rules from the C03 grammar (literal / pre<conv:name>post segments over string, string(length|minlength,maxlength), "
                    "int, int(fixed_digits|min|max|signed), float, any, uuid; optional trailing <path>; leaf/branch; method sets), strict_slashes x merge_slashes, "
                    "every insertion order for <= 4 rules (4 orders above), paths built from the rules to hit, nearly hit (toggled/doubled/leading slashes, "
                    "replaced/dropped/added segments) and miss, 2 methods each; maps that are used while they grow (built from a prefix of the rules, "
                    "matched, then extended with Map.add one rule at a time, every answer compared with the model of the rules added so far; "
                    "families of rules competing at one position: converter weights, literal vs variable, v<int> prefixes); plus the fixed corpus. Non-trivial: any outcome but 404 on '/' or ''; distinct by hash.")


def replay(rep: dict) -> int:
    """./check C03 --replay file : re-run one failing input on the implementation and print what is observed."""
    import json
    inp = rep.get("input") or {}
    print(json.dumps({"property": rep.get("property"), "key": rep.get("key"), "what": rep.get("what")}, indent=1))
    if "map" not in inp:
        print(json.dumps(rep, indent=1)[:3000])
        return 0
    from werkzeug.routing import Map, Rule
    d = inp["map"]
    rules = []
    for r in d["rules"]:
        kw = {}
        if r.get("subdomain_or_host"):
            kw["host" if d.get("host_matching") else "subdomain"] = r["subdomain_or_host"]
        rules.append(Rule(r["rule"], endpoint=r["endpoint"], methods=r["methods"], strict_slashes=r["strict_slashes"],
                          merge_slashes=r["merge_slashes"], defaults=r.get("defaults"), alias=r.get("alias", False),
                          websocket=r.get("websocket", False), build_only=r.get("build_only", False), **kw))
    m = Map(rules, strict_slashes=d["strict_slashes"], merge_slashes=d["merge_slashes"], redirect_defaults=d["redirect_defaults"],
            host_matching=d["host_matching"])
    adp = inp.get("adapter") or {}
    q = adp.get("query")
    if isinstance(q, list):
        q = Adapter(query=(q[0], tuple(tuple(x) for x in q[1])) if q and isinstance(q[0], str) else tuple(tuple(x) for x in q)).query_object()
    a = m.bind(adp.get("server", "example.com"), adp.get("script", "/"), adp.get("subdomain"), adp.get("scheme", "http"), query_args=q)
    try:
        print("observed now:", a.match(inp["path"], inp["method"]))
    except Exception as e:  # noqa: BLE001
        print("observed now:", type(e).__name__, getattr(e, "new_url", ""), getattr(e, "valid_methods", ""))
    print("observed when the replay was written:", inp.get("observed"))
    return 0


# ---------------------------------------------------------------- corpus files (corpus/<PID>/*.json), run first
def spec_to_json(ms: MapSpec) -> dict:
    from dataclasses import asdict
    return asdict(ms)


def _conv_from(d):
    return None if d is None else Conv(kind=d["kind"], exact=d["exact"], mn=d["mn"], mx=d["mx"], fixed=d["fixed"], signed=d["signed"],
                                        items=tuple(d["items"]))


def _seg_from(d):
    return Seg(lit=d["lit"], pre=d["pre"], conv=_conv_from(d["conv"]), name=d["name"], post=d["post"])


def spec_from_json(d: dict) -> MapSpec:
    rules = []
    for r in d["rules"]:
        rules.append(RuleSpec(idx=r["idx"], endpoint=r["endpoint"], segs=tuple(_seg_from(s) for s in r["segs"]), tail=r["tail"],
                              branch=r["branch"], methods=None if r["methods"] is None else tuple(r["methods"]), strict=r["strict"],
                              merge=r["merge"], websocket=r["websocket"], alias=r["alias"],
                              defaults=tuple((k, v) for k, v in r["defaults"]), dom=_seg_from(r["dom"]),
                              build_only=r.get("build_only", False)))
    return MapSpec(rules=tuple(rules), strict=d["strict"], merge=d["merge"], redirect_defaults=d["redirect_defaults"],
                   host_matching=d["host_matching"])


def load_corpus(pid: str):
    """[(MapSpec, paths, methods, Adapter)] from corpus/<pid>/*.json"""
    import glob
    import json
    from .vlib import VERIF
    out = []
    for f in sorted(glob.glob(os.path.join(VERIF, "corpus", pid, "*.json"))):
        with open(f, encoding="utf-8") as fh:
            d = json.load(fh)
        for c in d.get("cases", []):
            a = c.get("adapter") or {}
            q = a.get("query")
            if isinstance(q, list):
                q = (q[0], tuple(tuple(x) for x in q[1])) if q and isinstance(q[0], str) else tuple(tuple(x) for x in q)
            out.append((spec_from_json(c["map"]), c["paths"], c["methods"],
                        Adapter(scheme=a.get("scheme", "http"), server=a.get("server", "example.com"), script=a.get("script", "/"),
                                subdomain=a.get("subdomain"), query=q, environ=bool(a.get("environ", False)),
                                host_suffix=a.get("host_suffix", ""))))
    return out


def write_corpus(pid: str, name: str, what: str, cases) -> None:
    import json
    from .vlib import VERIF
    os.makedirs(os.path.join(VERIF, "corpus", pid), exist_ok=True)
    out = {"property": pid, "what": what, "cases": []}
    for ms, paths, meths, ad in cases:
        out["cases"].append({"map": spec_to_json(ms), "rules": [r.string() for r in ms.rules], "paths": paths, "methods": meths,
                             "adapter": {"scheme": ad.scheme, "server": ad.server, "script": ad.script, "subdomain": ad.subdomain,
                                         "query": ad.query, "environ": ad.environ, "host_suffix": ad.host_suffix}})
    with open(os.path.join(VERIF, "corpus", pid, name), "w", encoding="utf-8") as fh:
        json.dump(out, fh, indent=1, ensure_ascii=False)
