"""Shared machinery of every check: Coq build, Print Assumptions audit, extraction build,
model runner, known findings, violation protocol, evidence."""
from __future__ import annotations

import fcntl
import glob
import hashlib
import json
import os
import random
import re
import subprocess
import sys
import time

VERIF = os.path.dirname(os.path.dirname(os.path.abspath(__file__)))
REPO = os.environ.get("VERIF_REPO", "/repo")
COQ = os.path.join(VERIF, "coq")
BUILD = os.path.join(VERIF, "build")
NPROC = os.cpu_count() or 4

FORBIDDEN = re.compile(
    r"\b(Admitted|admit|Axiom|Axioms|Parameter|Parameters|Conjecture|Conjectures|Abort All)\b"
    r"|Unset\s+Guard|Unset\s+Positivity|Unset\s+Universe|bypass_check|type-in-type"
    r"|impredicative-set|Admit\s+Obligations|native_compute"
)
# standard-library axioms a theorem may depend on (each named in the evidence when it occurs)
ALLOWED_AXIOMS = {
    "functional_extensionality_dep", "classic", "proof_irrelevance", "JMeq_eq",
    "propositional_extensionality", "Eqdep.Eq_rect_eq.eq_rect_eq", "eq_rect_eq",
    "ClassicalDedekindReals.sig_forall_dec", "ClassicalDedekindReals.sig_not_dec",
}

KERNEL_TB = [
    "Coq 8.16.1 kernel (coqc, full .vo build via coq_makefile/make; vm_compute used for "
    "finite sweeps and witnesses; native_compute not used)",
]


def sh(cmd, timeout=600, cwd=None, input=None, env=None):
    try:
        p = subprocess.run(cmd, shell=isinstance(cmd, str), cwd=cwd, input=input, env=env,
                           capture_output=True, text=True, timeout=timeout)
        return p.returncode, p.stdout, p.stderr
    except subprocess.TimeoutExpired as e:
        return 124, (e.stdout or b"").decode() if isinstance(e.stdout, bytes) else (e.stdout or ""), "TIMEOUT"


class Lock:
    def __init__(self, name="coq"):
        os.makedirs(BUILD, exist_ok=True)
        self.path = os.path.join(BUILD, f".{name}.lock")

    def __enter__(self):
        self.f = open(self.path, "w")
        fcntl.flock(self.f, fcntl.LOCK_EX)
        return self

    def __exit__(self, *a):
        fcntl.flock(self.f, fcntl.LOCK_UN)
        self.f.close()


class Check:
    def __init__(self, pid: str, tier: str, seed: int):
        self.pid = pid
        self.tier = tier
        self.seed = seed
        self.t0 = time.time()
        self.rng = random.Random(f"{pid}:{seed}")
        self.breaks: list[dict] = []      # broken obligations / correspondences
        self.failures: list[dict] = []    # impl-level property failures (key, what, input)
        self.cov: dict = {"evaluations": 0, "distinct_nontrivial": 0, "samples": [],
                          "obligations": 0, "discharged": 0}
        self.trusted: list[str] = list(KERNEL_TB)
        self.assumptions: list[str] = []
        self.dist: dict = {}
        self._seen: set = set()
        self.theorems: list[dict] = []
        self.notes: list[str] = []
        os.makedirs(os.path.join(VERIF, "replays"), exist_ok=True)
        os.makedirs(os.path.join(VERIF, "evidence"), exist_ok=True)

    # ------------------------------------------------------------------ bookkeeping
    def log(self, *a):
        print(f"[{self.pid}]", *a, flush=True)

    def count(self, bucket: str, n: int = 1):
        self.dist[bucket] = self.dist.get(bucket, 0) + n

    def case(self, key, nontrivial: bool = True, sample=None):
        """count one evaluated case; distinct+nontrivial measured by a hash set."""
        self.cov["evaluations"] += 1
        if nontrivial:
            h = hashlib.blake2b(repr(key).encode("utf-8", "surrogatepass"), digest_size=8).digest()
            if h not in self._seen:
                self._seen.add(h)
                self.cov["distinct_nontrivial"] += 1
        if sample is not None and len(self.cov["samples"]) < 8:
            self.cov["samples"].append(sample)

    def broken(self, kind: str, name: str, detail: str = "", case=None):
        self.breaks.append({"kind": kind, "name": name, "detail": detail[-4000:], "case": case})
        self.log(f"BROKEN {kind}: {name}: {detail[-600:]}")

    def fail(self, key: str, what: str, inp):
        """an impl-level failure of the property itself on a concrete input."""
        self.failures.append({"key": key, "what": what, "input": inp})

    # ------------------------------------------------------------------ coq
    def _dep_dirs(self) -> list[str]:
        """coq/lib, the property's own directory and every property directory its files import"""
        seen, todo = ["lib"], [self.pid]
        while todo:
            d = todo.pop()
            if d in seen or not os.path.isdir(os.path.join(COQ, d)):
                continue
            seen.append(d)
            for path in glob.glob(os.path.join(COQ, d, "*.v")):
                with open(path, encoding="utf-8") as f:
                    for m in re.finditer(r"\b(C\d\d)\.[A-Z]", f.read()):
                        if m.group(1) not in seen:
                            todo.append(m.group(1))
        return seen

    def forbidden_scan(self):
        bad = []
        for d in self._dep_dirs():
            for path in glob.glob(os.path.join(COQ, d, "*.v")):
                with open(path, encoding="utf-8") as f:
                    txt = re.sub(r"\(\*.*?\*\)", "", f.read(), flags=re.S)
                for m in FORBIDDEN.finditer(txt):
                    bad.append(f"{os.path.relpath(path, COQ)}: {m.group(0)}")
        if bad:
            self.broken("forbidden-vernacular", "coq sources", "; ".join(bad[:10]))
        return not bad

    def coq_make(self, targets: list[str], timeout=1500) -> bool:
        with Lock():
            rc, out, err = sh(["sh", "./mkproject.sh"], cwd=COQ)
            rc, out, err = sh(["make", "-f", "Makefile.coq", f"-j{NPROC}", *targets], cwd=COQ,
                              timeout=timeout)
        if rc != 0:
            msg = (out + "\n" + err)
            # the File line that is followed by Error (not a warning)
            m = re.search(r'File "\./([^"]+)", line (\d+)[^\n]*\n(?:[^\n]*\n)?Error', msg)
            if not m:
                m = re.search(r'File "\./([^"]+)", line (\d+)', msg)
            name = f"{m.group(1)}:{m.group(2)}" if m else "make"
            self.broken("proof", name, msg)
            return False
        return True

    def audit_props(self, relv: str, timeout=900) -> bool:
        """compile the property file (theorems only, each `exact lemma.` + Print Assumptions)
        and audit what Print Assumptions reports."""
        path = os.path.join(COQ, relv)
        with open(path, encoding="utf-8") as f:
            src = re.sub(r"\(\*.*?\*\)", "", f.read(), flags=re.S)
        names = re.findall(r"^\s*(?:Theorem|Lemma|Example)\s+([A-Za-z0-9_']+)", src, flags=re.M)
        printed = re.findall(r"^\s*Print Assumptions\s+([A-Za-z0-9_']+)\s*\.", src, flags=re.M)
        self.cov["obligations"] += len(names)
        if names != printed:
            self.broken("proof", relv, f"theorems {names} vs Print Assumptions {printed}")
            return False
        # every file the property file imports must be built (make resolves the dependencies)
        if not self.coq_make([relv[:-2] + ".vo"], timeout=timeout):
            return False
        with Lock():
            rc, out, err = sh(["coqc", "-Q", ".", "Wz", "-w", "-notation-overridden", relv], cwd=COQ, timeout=timeout)
        if rc != 0:
            self.broken("proof", relv, out + err)
            return False
        blocks = re.split(r"(?m)^(?=Closed under the global context|Axioms:)", out)
        blocks = [b for b in blocks if b.startswith(("Closed under", "Axioms:"))]
        if len(blocks) != len(names):
            self.broken("proof", relv, f"{len(blocks)} assumption reports for {len(names)} theorems")
            return False
        ok = True
        for n, b in zip(names, blocks):
            axs = []
            if b.startswith("Axioms:"):
                axs = re.findall(r"(?m)^([A-Za-z0-9_.']+)\s*:", b[len("Axioms:"):])
                axs = [a for a in axs if a]
            bad = [a for a in axs if a.split(".")[-1] not in ALLOWED_AXIOMS and a not in ALLOWED_AXIOMS]
            self.theorems.append({"theorem": n, "axioms": axs or "closed under the global context"})
            if bad:
                ok = False
                self.broken("proof", n, f"depends on non-standard axioms {bad}")
            else:
                self.cov["discharged"] += 1
                for a in axs:
                    t = f"standard-library axiom {a} (reported by Print Assumptions {n})"
                    if t not in self.trusted:
                        self.trusted.append(t)
        # thorough tier: independent re-check of the compiled property file and everything it depends on
        if ok and self.tier == "thorough" and "coqchk" not in self.cov and os.environ.get("VERIF_NO_COQCHK") != "1":
            self.coqchk(["Wz." + relv[:-2].replace("/", ".")])
        return ok

    def coqchk(self, modules: list[str], timeout=3000) -> bool:
        """independent re-check of the compiled property files (thorough tier): coqchk -o"""
        with Lock():
            rc, out, err = sh(["coqchk", "-silent", "-o", "-Q", ".", "Wz", *modules], cwd=COQ, timeout=timeout)
        txt = out + err
        m = re.search(r"\* Axioms:(.*?)\n\s*\n\* Constants/Inductives relying on type-in-type", txt, flags=re.S)
        axioms = m.group(1).strip() if m else "?"
        ok = rc == 0 and axioms == "<none>" and "relying on unsafe (co)fixpoints: <none>" in txt \
            and "positivity is assumed: <none>" in txt and "relying on type-in-type: <none>" in txt
        self.cov["coqchk"] = {"modules": modules, "exit": rc, "axioms": axioms}
        if rc != 0:
            self.broken("proof", "coqchk " + " ".join(modules), txt[-1500:])
        elif not ok:
            names = [a.strip() for a in axioms.splitlines() if a.strip()]
            bad = [a for a in names if a.split(".")[-1] not in ALLOWED_AXIOMS]
            if bad or "<none>" not in txt:
                self.broken("proof", "coqchk reports assumptions", axioms[-800:])
        self.trusted.append(f"coqchk -o on {' '.join(modules)}: axioms {axioms}")
        return rc == 0

    # ------------------------------------------------------------------ extraction
    def build_modelrun(self, sub: str) -> str | None:
        """coq/<sub>/model_extracted.ml + ocaml/conv.ml + coq/<sub>/driver.ml -> build/<sub>_modelrun"""
        d = os.path.join(COQ, sub)
        srcs = [os.path.join(d, "model_extracted.ml"), os.path.join(VERIF, "tools", "conv.ml"),
                os.path.join(d, "driver.ml")]
        exe = os.path.join(BUILD, f"{sub}_modelrun")
        for s in srcs:
            if not os.path.exists(s):
                self.broken("extraction", s, "missing")
                return None
        with Lock("ocaml_" + sub):
            if os.path.exists(exe) and all(os.path.getmtime(exe) >= os.path.getmtime(s) for s in srcs):
                return exe
            wd = os.path.join(BUILD, sub)
            os.makedirs(wd, exist_ok=True)
            with open(os.path.join(wd, "all.ml"), "w") as out:
                for s in srcs:
                    with open(s) as f:
                        out.write(f"# 1 \"{s}\"\n")
                        out.write(f.read() + "\n")
            rc, o, e = sh(["ocamlfind", "ocamlopt", "-w", "-a", "all.ml", "-o", exe],
                          cwd=wd, timeout=600)
            if rc != 0:
                self.broken("extraction", sub, o + e)
                return None
        return exe

    def run_model(self, exe: str, lines: list[str], timeout=1200) -> list[str] | None:
        if not lines:
            return []          # nothing to evaluate (a batch of oracle-only schedules): not a model failure
        rc, out, err = sh([exe], input="\n".join(lines) + "\n", timeout=timeout)
        if rc != 0:
            self.broken("model-run", exe, err[-2000:])
            return None
        res = out.split("\n")
        if res and res[-1] == "":
            res.pop()
        if len(res) != len(lines):
            self.broken("model-run", exe, f"{len(res)} results for {len(lines)} cases")
            return None
        return res

    # ------------------------------------------------------------------ verdict
    def known(self):
        ks, fixed = [], []
        p = os.path.join(VERIF, "known_findings.txt")
        if os.path.exists(p):
            for line in open(p, encoding="utf-8"):
                line = line.strip()
                m = re.match(r"known:\s+property=(\S+)\s+key=(\S+)\s+(.*)", line)
                if m and m.group(1) == self.pid:
                    ks.append((m.group(2), m.group(3)))
                m = re.match(r"fixed:\s+property=(\S+)\s+(\S+)\s+(.*)", line)
                if m and m.group(1) == self.pid:
                    fixed.append((m.group(2), m.group(3)))
        return ks, fixed

    def finish(self, rule: str, level_extra: dict | None = None):
        ks, _fixed = self.known()
        known_keys = {k for k, _ in ks}
        hit_known = {}
        unlisted = []
        for f in self.failures:
            if f["key"] in known_keys:
                hit_known.setdefault(f["key"], f)
            else:
                unlisted.append(f)
        for k, text in ks:
            if k in hit_known:
                print(f"KNOWN-FINDING: property={self.pid} {text}", flush=True)
            else:
                # a listed finding that no longer reproduces is not an alarm; say so
                self.notes.append(f"listed finding key={k} did not reproduce on this run")
        rc = 0
        replay = None
        if unlisted:
            f = unlisted[0]
            replay = os.path.join(VERIF, "replays", f"{self.pid}_{int(time.time())}_{os.getpid()}.json")
            with open(replay, "w") as fh:
                json.dump({"property": self.pid, "kind": "failing-input", "key": f["key"],
                           "what": f["what"], "input": f["input"],
                           "other_failures": [{"key": x["key"], "what": x["what"], "input": x["input"]}
                                              for x in unlisted[1:20]],
                           "broken": self.breaks[:10], "seed": self.seed}, fh, indent=1, default=repr)
            print(f"VIOLATION property={self.pid} replay={replay}", flush=True)
            rc = 1
        elif self.breaks:
            replay = os.path.join(VERIF, "replays", f"{self.pid}_{int(time.time())}_{os.getpid()}.json")
            with open(replay, "w") as fh:
                json.dump({"property": self.pid, "kind": "broken-obligation",
                           "no_longer_checks": [f"{b['kind']}: {b['name']}" for b in self.breaks],
                           "broken": self.breaks[:10], "seed": self.seed,
                           "note": "no concrete failing input was found by the search"},
                          fh, indent=1, default=repr)
            print(f"VIOLATION property={self.pid} replay={replay} no-failing-input-found", flush=True)
            rc = 1
        cov = dict(self.cov)
        if any(b["kind"] == "translator" for b in self.breaks):
            # the translator refused the source, so Gen.v on disk is the one of an earlier run: whatever Coq accepted was
            # not about the current code and is not counted
            cov["discharged"] = 0
            self.notes.append("translator refused the current source: theorems were (at most) checked against a Gen.v of an "
                              "earlier run and are not counted as discharged")
        cov["rule"] = rule
        cov["checker_cmd"] = (f"cd /verif/coq && make -f Makefile.coq (coqc 8.16.1) ; coqc {self.pid}/Props.v "
                              "(Print Assumptions under every property theorem)")
        cov["trusted_base"] = self.trusted
        cov["theorems"] = self.theorems
        cov["input_distribution"] = self.dist
        cov["known_findings_reproduced"] = sorted(hit_known)
        if self.notes:
            cov["notes"] = self.notes
        if level_extra:
            cov.update(level_extra)
        # schema: coverage.exhaustive is a boolean; keep a builder's description under another key
        if "exhaustive" in cov and not isinstance(cov["exhaustive"], bool):
            cov["exhaustive_detail"] = cov["exhaustive"]
            cov["exhaustive"] = True
        for k in ("states", "transitions", "traces_validated_against_impl", "programs", "disagreements_checked"):
            if k in cov and not isinstance(cov[k], int):
                cov[k + "_detail"] = cov.pop(k)
        if not cov["samples"]:
            cov["samples"] = ["(no case reached the sampler)"]
        ev = {"property_id": self.pid, "tier": self.tier, "seed": self.seed, "level": "proof",
              "coverage": cov, "assumptions": self.assumptions,
              "wall_s": round(time.time() - self.t0, 2),
              "violations": len(unlisted) + (1 if (self.breaks and not unlisted) else 0)}
        with open(os.path.join(VERIF, "evidence", f"{self.pid}.json"), "w") as fh:
            json.dump(ev, fh, indent=1, default=repr)
        self.log(f"done rc={rc} obligations={cov['obligations']} discharged={cov['discharged']} "
                 f"evaluations={cov['evaluations']} distinct={cov['distinct_nontrivial']} "
                 f"wall={ev['wall_s']}s")
        sys.exit(rc)


class ImplTimeout(Exception):
    pass


def with_timeout(fn, secs: float, *a, **kw):
    """run fn(*a, **kw) in this process under a watchdog; raises ImplTimeout.
    Used around calls into the implementation so that a non-terminating mutant is reported
    instead of hanging the check.  Two timers: `secs` of this process's own CPU time (a spinning loop; not
    affected by how loaded the machine is, so a descheduled process is never mistaken for a hang) and
    10 x `secs` of wall-clock time (a call blocked without using CPU)."""
    import signal

    def handler(signum, frame):
        raise ImplTimeout()
    old = signal.signal(signal.SIGALRM, handler)
    oldv = signal.signal(signal.SIGVTALRM, handler)
    signal.setitimer(signal.ITIMER_REAL, secs * 10)
    signal.setitimer(signal.ITIMER_VIRTUAL, secs)
    try:
        return fn(*a, **kw)
    finally:
        signal.setitimer(signal.ITIMER_VIRTUAL, 0)
        signal.setitimer(signal.ITIMER_REAL, 0)
        signal.signal(signal.SIGALRM, old)
        signal.signal(signal.SIGVTALRM, oldv)


def hexs(b) -> str:
    """hex of a bytes / list of small ints; '-' for empty (one token per field)."""
    b = bytes(b)
    return b.hex() if b else "-"


def cps(s: str) -> str:
    """a str as comma-separated code points; '-' for empty."""
    return ",".join(str(ord(c)) for c in s) if s else "-"


def uncps(t: str) -> str:
    return "" if t == "-" else "".join(chr(int(x)) for x in t.split(","))


def unhex(t: str) -> bytes:
    return b"" if t == "-" else bytes.fromhex(t)
