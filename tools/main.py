from __future__ import annotations

import argparse
import importlib
import json
import os
import sys

from .vlib import Check


def main() -> None:
    ap = argparse.ArgumentParser()
    ap.add_argument("pid")
    ap.add_argument("--tier", default=os.environ.get("VERIF_TIER", "quick"), choices=["quick", "thorough"])
    ap.add_argument("--replay")
    a = ap.parse_args()
    seed = int(os.environ.get("VERIF_SEED", "0") or 0)
    mod = importlib.import_module(f"tools.{a.pid.lower()}")
    if a.replay:
        with open(a.replay) as f:
            rep = json.load(f)
        if hasattr(mod, "replay"):
            sys.exit(mod.replay(rep))
        print(json.dumps(rep, indent=1))
        sys.exit(0)
    chk = Check(a.pid, a.tier, seed)
    try:
        mod.main(chk)
    except SystemExit:
        raise
    except BaseException as e:  # noqa: BLE001
        # the harness itself could not run to the end against this tree (an attribute it reads is gone, the code under
        # test raised where the harness does not expect it, ...): the correspondence between model and code is no longer
        # checked, which is a verdict (VIOLATION ... no-failing-input-found unless a concrete failure was already
        # recorded), never a silent crash
        import traceback
        tb = traceback.format_exc()
        chk.broken("correspondence", f"{a.pid} harness aborted: {type(e).__name__}", tb)
        chk.finish(rule="harness aborted before completing; see the broken correspondence entry")


if __name__ == "__main__":
    main()
