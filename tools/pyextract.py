"""Fail-closed helpers for the source -> Gallina translator (tie (a) of DESIGN.md 2.2).

Everything here reads /repo's *source text* with `ast`; werkzeug is never imported by the
translator.  Anything not recognised raises Unsupported, which a check reports as a broken
obligation.
"""
from __future__ import annotations

import ast
import os
import re


class Unsupported(Exception):
    pass


REPO = os.environ.get("VERIF_REPO", "/repo")


def src_path(rel: str) -> str:
    return os.path.join(REPO, "src", "werkzeug", rel)


def load(rel: str) -> ast.Module:
    path = src_path(rel)
    try:
        with open(path, encoding="utf-8") as f:
            return ast.parse(f.read(), filename=path)
    except (OSError, SyntaxError) as e:
        raise Unsupported(f"cannot parse {path}: {e}") from e


def find_assign(mod: ast.AST, name: str) -> ast.expr:
    """value of the (single) module/class-level `name = value` or `name: T = value`."""
    found = []
    for node in getattr(mod, "body", []):
        if isinstance(node, ast.Assign):
            for t in node.targets:
                if isinstance(t, ast.Name) and t.id == name:
                    found.append(node.value)
        elif isinstance(node, ast.AnnAssign) and isinstance(node.target, ast.Name):
            if node.target.id == name and node.value is not None:
                found.append(node.value)
    if len(found) != 1:
        raise Unsupported(f"expected exactly one assignment to {name}, found {len(found)}")
    return found[0]


def find_def(mod: ast.AST, name: str) -> ast.FunctionDef:
    found = [n for n in getattr(mod, "body", []) if isinstance(n, ast.FunctionDef) and n.name == name]
    if len(found) != 1:
        raise Unsupported(f"expected exactly one def {name}, found {len(found)}")
    return found[0]


def find_class(mod: ast.AST, name: str) -> ast.ClassDef:
    found = [n for n in getattr(mod, "body", []) if isinstance(n, ast.ClassDef) and n.name == name]
    if len(found) != 1:
        raise Unsupported(f"expected exactly one class {name}, found {len(found)}")
    return found[0]


def const(node: ast.expr):
    """literal constant (incl. implicit string concatenation, unary minus)."""
    try:
        return ast.literal_eval(node)
    except Exception as e:  # noqa: BLE001
        raise Unsupported(f"not a literal: {ast.unparse(node)}") from e


_FLAG_NAMES = {
    "A": re.A, "ASCII": re.A, "I": re.I, "IGNORECASE": re.I, "VERBOSE": re.X, "X": re.X,
    "M": re.M, "MULTILINE": re.M, "S": re.S, "DOTALL": re.S,
}


def _flags(node: ast.expr) -> int:
    if isinstance(node, ast.BinOp) and isinstance(node.op, ast.BitOr):
        return _flags(node.left) | _flags(node.right)
    if isinstance(node, ast.Attribute) and isinstance(node.value, ast.Name) and node.value.id == "re":
        if node.attr in _FLAG_NAMES:
            return int(_FLAG_NAMES[node.attr])
    raise Unsupported(f"unknown regex flag expression: {ast.unparse(node)}")


def regex_of(node: ast.expr):
    """(pattern, flags) of a `re.compile(<literal>[, flags])` expression."""
    if not (isinstance(node, ast.Call) and isinstance(node.func, ast.Attribute)
            and node.func.attr == "compile" and isinstance(node.func.value, ast.Name)
            and node.func.value.id == "re"):
        raise Unsupported(f"not a re.compile call: {ast.unparse(node)}")
    if not node.args:
        raise Unsupported("re.compile without pattern")
    pat = const(node.args[0])
    flags = 0
    if len(node.args) > 1:
        flags = _flags(node.args[1])
    for kw in node.keywords:
        if kw.arg == "flags":
            flags = _flags(kw.value)
        else:
            raise Unsupported(f"unknown re.compile keyword {kw.arg}")
    if not isinstance(pat, (str, bytes)):
        raise Unsupported("pattern is not str/bytes")
    return pat, flags


def single_class_pattern(pat, star: bool = False):
    """require the pattern to be exactly one character class `[...]` (followed by `*` when
    star), so that a membership table determines its meaning completely."""
    p = pat if isinstance(pat, str) else pat.decode("latin1")
    body = p[:-1] if star else p
    if star and not p.endswith("]*"):
        raise Unsupported(f"pattern is not a starred class: {p!r}")
    if not (body.startswith("[") and body.endswith("]")):
        raise Unsupported(f"pattern is not a single class: {p!r}")
    inner = body[1:-1]
    # an unescaped ']' inside would end the class early (allow \] and a leading ])
    i = 0
    while i < len(inner):
        if inner[i] == "\\":
            i += 2
            continue
        if inner[i] == "]" and i != 0 and not (i == 1 and inner[0] == "^"):
            raise Unsupported(f"pattern has more than one class: {p!r}")
        if inner[i] == "[" and inner[i:i + 2] == "[:":
            raise Unsupported("posix class")
        i += 1
    return body


def class_table(pat, flags: int, universe) -> list[int]:
    """code points / byte values of `universe` matched by the single-class pattern."""
    if isinstance(pat, bytes):
        rx = re.compile(pat, flags)
        return [v for v in universe if rx.fullmatch(bytes([v]))]
    rx = re.compile(pat, flags)
    return [v for v in universe if rx.fullmatch(chr(v))]


# ---------------------------------------------------------------- Coq text emitters

def coq_nlist(xs) -> str:
    return "[" + "; ".join(str(int(x)) for x in xs) + "]%N"


def coq_string_codes(s) -> str:
    """a str/bytes literal as a list of code points (no Coq string escapes needed)."""
    if isinstance(s, bytes):
        return coq_nlist(list(s))
    return coq_nlist([ord(c) for c in s])


def ranges(xs) -> list[tuple[int, int]]:
    xs = sorted(set(xs))
    out = []
    for x in xs:
        if out and out[-1][1] + 1 == x:
            out[-1] = (out[-1][0], x)
        else:
            out.append((x, x))
    return out


def coq_ranges(xs) -> str:
    return "[" + "; ".join(f"({a}, {b})" for a, b in ranges(xs)) + "]%N"


def write_if_changed(path: str, text: str) -> bool:
    try:
        with open(path, encoding="utf-8") as f:
            if f.read() == text:
                return False
    except OSError:
        pass
    os.makedirs(os.path.dirname(path), exist_ok=True)
    tmp = path + ".tmp"
    with open(tmp, "w", encoding="utf-8") as f:
        f.write(text)
    os.replace(tmp, path)
    return True


HEADER = "(* GENERATED by tools/{tool} from {src} on every run - do not edit *)\nFrom Wz Require Import lib.Bytes.\nOpen Scope N_scope.\n\n"
