"""Fail-closed helpers for the source -> Gallina translator (tie (a) of DESIGN.md 2.2).

Everything here reads /repo's *source text* with `ast`; werkzeug is never imported by the
translator.  Anything not recognised raises Unsupported, which a check reports as a broken
obligation.
"""
from __future__ import annotations

import ast
import os
import re


class Unsupported(Exception):
    pass


REPO = os.environ.get("VERIF_REPO", "/repo")


def src_path(rel: str) -> str:
    return os.path.join(REPO, "src", "werkzeug", rel)


def load(rel: str) -> ast.Module:
    path = src_path(rel)
    try:
        with open(path, encoding="utf-8") as f:
            return ast.parse(f.read(), filename=path)
    except (OSError, SyntaxError) as e:
        raise Unsupported(f"cannot parse {path}: {e}") from e


def find_assign(mod: ast.AST, name: str) -> ast.expr:
    """value of the (single) module/class-level `name = value` or `name: T = value`."""
    found = []
    for node in getattr(mod, "body", []):
        if isinstance(node, ast.Assign):
            for t in node.targets:
                if isinstance(t, ast.Name) and t.id == name:
                    found.append(node.value)
        elif isinstance(node, ast.AnnAssign) and isinstance(node.target, ast.Name):
            if node.target.id == name and node.value is not None:
                found.append(node.value)
    if len(found) != 1:
        raise Unsupported(f"expected exactly one assignment to {name}, found {len(found)}")
    return found[0]


def find_def(mod: ast.AST, name: str) -> ast.FunctionDef:
    found = [n for n in getattr(mod, "body", []) if isinstance(n, ast.FunctionDef) and n.name == name]
    if len(found) != 1:
        raise Unsupported(f"expected exactly one def {name}, found {len(found)}")
    return found[0]


def find_class(mod: ast.AST, name: str) -> ast.ClassDef:
    found = [n for n in getattr(mod, "body", []) if isinstance(n, ast.ClassDef) and n.name == name]
    if len(found) != 1:
        raise Unsupported(f"expected exactly one class {name}, found {len(found)}")
    return found[0]


def const(node: ast.expr):
    """literal constant (incl. implicit string concatenation, unary minus)."""
    try:
        return ast.literal_eval(node)
    except Exception as e:  # noqa: BLE001
        raise Unsupported(f"not a literal: {ast.unparse(node)}") from e


_FLAG_NAMES = {
    "A": re.A, "ASCII": re.A, "I": re.I, "IGNORECASE": re.I, "VERBOSE": re.X, "X": re.X,
    "M": re.M, "MULTILINE": re.M, "S": re.S, "DOTALL": re.S,
}


def _flags(node: ast.expr) -> int:
    if isinstance(node, ast.BinOp) and isinstance(node.op, ast.BitOr):
        return _flags(node.left) | _flags(node.right)
    if isinstance(node, ast.Attribute) and isinstance(node.value, ast.Name) and node.value.id == "re":
        if node.attr in _FLAG_NAMES:
            return int(_FLAG_NAMES[node.attr])
    raise Unsupported(f"unknown regex flag expression: {ast.unparse(node)}")


def regex_of(node: ast.expr):
    """(pattern, flags) of a `re.compile(<literal>[, flags])` expression."""
    if not (isinstance(node, ast.Call) and isinstance(node.func, ast.Attribute)
            and node.func.attr == "compile" and isinstance(node.func.value, ast.Name)
            and node.func.value.id == "re"):
        raise Unsupported(f"not a re.compile call: {ast.unparse(node)}")
    if not node.args:
        raise Unsupported("re.compile without pattern")
    pat = const(node.args[0])
    flags = 0
    if len(node.args) > 1:
        flags = _flags(node.args[1])
    for kw in node.keywords:
        if kw.arg == "flags":
            flags = _flags(kw.value)
        else:
            raise Unsupported(f"unknown re.compile keyword {kw.arg}")
    if not isinstance(pat, (str, bytes)):
        raise Unsupported("pattern is not str/bytes")
    return pat, flags


def single_class_pattern(pat, star: bool = False):
    """require the pattern to be exactly one character class `[...]` (followed by `*` when
    star), so that a membership table determines its meaning completely."""
    p = pat if isinstance(pat, str) else pat.decode("latin1")
    body = p[:-1] if star else p
    if star and not p.endswith("]*"):
        raise Unsupported(f"pattern is not a starred class: {p!r}")
    if not (body.startswith("[") and body.endswith("]")):
        raise Unsupported(f"pattern is not a single class: {p!r}")
    inner = body[1:-1]
    # an unescaped ']' inside would end the class early (allow \] and a leading ])
    i = 0
    while i < len(inner):
        if inner[i] == "\\":
            i += 2
            continue
        if inner[i] == "]" and i != 0 and not (i == 1 and inner[0] == "^"):
            raise Unsupported(f"pattern has more than one class: {p!r}")
        if inner[i] == "[" and inner[i:i + 2] == "[:":
            raise Unsupported("posix class")
        i += 1
    return body


def class_table(pat, flags: int, universe) -> list[int]:
    """code points / byte values of `universe` matched by the single-class pattern."""
    if isinstance(pat, bytes):
        rx = re.compile(pat, flags)
        return [v for v in universe if rx.fullmatch(bytes([v]))]
    rx = re.compile(pat, flags)
    return [v for v in universe if rx.fullmatch(chr(v))]


# ---------------------------------------------------------------- Coq text emitters

def coq_nlist(xs) -> str:
    return "[" + "; ".join(str(int(x)) for x in xs) + "]%N"


def coq_string_codes(s) -> str:
    """a str/bytes literal as a list of code points (no Coq string escapes needed)."""
    if isinstance(s, bytes):
        return coq_nlist(list(s))
    return coq_nlist([ord(c) for c in s])


def ranges(xs) -> list[tuple[int, int]]:
    xs = sorted(set(xs))
    out = []
    for x in xs:
        if out and out[-1][1] + 1 == x:
            out[-1] = (out[-1][0], x)
        else:
            out.append((x, x))
    return out


def coq_ranges(xs) -> str:
    return "[" + "; ".join(f"({a}, {b})" for a, b in ranges(xs)) + "]%N"


def write_if_changed(path: str, text: str) -> bool:
    try:
        with open(path, encoding="utf-8") as f:
            if f.read() == text:
                return False
    except OSError:
        pass
    os.makedirs(os.path.dirname(path), exist_ok=True)
    tmp = path + ".tmp"
    with open(tmp, "w", encoding="utf-8") as f:
        f.write(text)
    os.replace(tmp, path)
    return True


HEADER = "(* GENERATED by tools/{tool} from {src} on every run - do not edit *)\nFrom Wz Require Import lib.Bytes.\nOpen Scope N_scope.\n\n"


# ---------------------------------------------------------------- T2: boolean decision expressions

class Atoms:
    """atom table: normalised `ast.unparse` text of a sub-expression -> (Gallina term, type)
    with type in {"nat", "optnat", "bool", "Z", "optZ"}; anything else is Unsupported."""

    def __init__(self, table: dict[str, tuple[str, str]]):
        self.table = {self.norm(k): v for k, v in table.items()}

    @staticmethod
    def norm(text: str) -> str:
        return ast.unparse(ast.parse(text, mode="eval").body)

    def get(self, node: ast.expr):
        key = ast.unparse(node)
        if key in self.table:
            return self.table[key]
        if isinstance(node, ast.Constant) and isinstance(node.value, int) and not isinstance(node.value, bool):
            return (f"{node.value}%nat", "nat") if node.value >= 0 else (f"({node.value})%Z", "Z")
        raise Unsupported(f"unknown atom: {key}")


_CMP_NAT = {ast.Gt: lambda a, b: f"Nat.ltb {b} {a}", ast.Lt: lambda a, b: f"Nat.ltb {a} {b}",
            ast.GtE: lambda a, b: f"Nat.leb {b} {a}", ast.LtE: lambda a, b: f"Nat.leb {a} {b}",
            ast.Eq: lambda a, b: f"Nat.eqb {a} {b}", ast.NotEq: lambda a, b: f"negb (Nat.eqb {a} {b})"}
_CMP_Z = {ast.Gt: lambda a, b: f"Z.ltb {b} {a}", ast.Lt: lambda a, b: f"Z.ltb {a} {b}",
          ast.GtE: lambda a, b: f"Z.leb {b} {a}", ast.LtE: lambda a, b: f"Z.leb {a} {b}",
          ast.Eq: lambda a, b: f"Z.eqb {a} {b}", ast.NotEq: lambda a, b: f"negb (Z.eqb {a} {b})"}


def num_expr(node: ast.expr, atoms: Atoms):
    """(term, type) of an arithmetic expression over nat/Z atoms (+ only; - on Z)."""
    if isinstance(node, ast.BinOp) and isinstance(node.op, (ast.Add, ast.Sub)):
        (a, ta), (b, tb) = num_expr(node.left, atoms), num_expr(node.right, atoms)
        if ta != tb or ta not in ("nat", "Z"):
            raise Unsupported(f"mixed arithmetic: {ast.unparse(node)}")
        if isinstance(node.op, ast.Sub) and ta == "nat":
            raise Unsupported(f"nat subtraction: {ast.unparse(node)}")
        op = "+" if isinstance(node.op, ast.Add) else "-"
        return f"({a} {op} {b})", ta
    return atoms.get(node)


def bool_expr(node: ast.expr, atoms: Atoms) -> str:
    """Gallina bool term for a Python boolean expression built from and/or/not, comparisons of
    nat/Z expressions (an option-typed operand compares as false when None: such comparisons must
    be guarded by `is not None` in the source, which the short-circuit `and` reproduces), and
    `x is None` / `x is not None` on option-typed atoms."""
    if isinstance(node, ast.BoolOp):
        parts = [bool_expr(v, atoms) for v in node.values]
        op = " && " if isinstance(node.op, ast.And) else " || "
        return "(" + op.join(parts) + ")"
    if isinstance(node, ast.UnaryOp) and isinstance(node.op, ast.Not):
        return f"(negb {bool_expr(node.operand, atoms)})"
    if isinstance(node, ast.Compare):
        # chained comparisons a < b < c -> (a < b) && (b < c)
        terms = []
        left = node.left
        for op, right in zip(node.ops, node.comparators):
            if isinstance(op, (ast.Is, ast.IsNot)):
                if not (isinstance(right, ast.Constant) and right.value is None):
                    raise Unsupported(f"is-comparison with non-None: {ast.unparse(node)}")
                t, ty = atoms.get(left)
                if not ty.startswith("opt"):
                    raise Unsupported(f"`is None` on non-option atom {ast.unparse(left)}")
                isnone = f"(match {t} with None => true | Some _ => false end)"
                terms.append(isnone if isinstance(op, ast.Is) else f"(negb {isnone})")
            else:
                (a, ta), (b, tb) = num_expr(left, atoms), num_expr(right, atoms)
                base_a, base_b = ta.replace("opt", "").lower(), tb.replace("opt", "").lower()
                base_a = "Z" if base_a == "z" else base_a
                base_b = "Z" if base_b == "z" else base_b
                if base_a != base_b or type(op) not in _CMP_NAT:
                    raise Unsupported(f"comparison not supported: {ast.unparse(node)}")
                tab = _CMP_NAT if base_a == "nat" else _CMP_Z
                binders = []
                if ta.startswith("opt"):
                    binders.append((a, "oa_x"))
                    a = "oa_x"
                if tb.startswith("opt"):
                    binders.append((b, "ob_x"))
                    b = "ob_x"
                core = tab[type(op)](a, b)
                for term, var in reversed(binders):
                    core = f"(match {term} with Some {var} => {core} | None => false end)"
                terms.append(f"({core})")
            left = right
        return "(" + " && ".join(terms) + ")"
    t, ty = atoms.get(node)
    if ty != "bool":
        raise Unsupported(f"non-boolean atom used as condition: {ast.unparse(node)}")
    return t


def find_method(cls: ast.ClassDef, name: str) -> ast.FunctionDef:
    found = [n for n in cls.body if isinstance(n, ast.FunctionDef) and n.name == name]
    if len(found) != 1:
        raise Unsupported(f"expected exactly one method {cls.name}.{name}, found {len(found)}")
    return found[0]


def ifs_raising(fn: ast.AST, exc_name: str) -> list[ast.If]:
    """the `if` statements in fn whose body is exactly `raise <exc_name>(...)`"""
    out = []
    for n in ast.walk(fn):
        if isinstance(n, ast.If) and len(n.body) == 1 and isinstance(n.body[0], ast.Raise):
            e = n.body[0].exc
            f = e.func if isinstance(e, ast.Call) else e
            if isinstance(f, ast.Name) and f.id == exc_name:
                out.append(n)
    return out


def skeleton(fn: ast.AST, holes: dict | None = None, deep: bool = False) -> str:
    """normalised source text of a function or class (ast.unparse: layout and comments do not matter), docstring stripped
    (with deep=True also the docstrings of every nested function / class), with the given sub-expression texts replaced by
    hole names (longest first)"""
    import copy
    fn = copy.deepcopy(fn)
    for node in (ast.walk(fn) if deep else [fn]):
        if isinstance(node, (ast.FunctionDef, ast.AsyncFunctionDef, ast.ClassDef)) and node.body \
                and isinstance(node.body[0], ast.Expr) and isinstance(node.body[0].value, ast.Constant) \
                and isinstance(node.body[0].value.value, str):
            node.body = node.body[1:] or [ast.Pass()]
    t = ast.unparse(fn)
    for k, v in sorted((holes or {}).items(), key=lambda kv: -len(kv[0])):
        t = t.replace(k, v)
    return t


def check_pin(pid: str, name: str, text: str, what: str) -> None:
    """compare `text` with the committed pin tools/pins/<name>; raise Unsupported with a short diff when they differ.
    VERIF_WRITE_PINS=<pid> rewrites the pin (maintenance, after the hand-written model was reviewed against the source)."""
    path = os.path.join(os.path.dirname(os.path.abspath(__file__)), "pins", name)
    if os.environ.get("VERIF_WRITE_PINS") == pid:
        with open(path, "w") as fh:
            fh.write(text)
    try:
        with open(path) as fh:
            want = fh.read()
    except OSError:
        want = ""
    if text != want:
        import difflib
        d = "\n".join(list(difflib.unified_diff(want.splitlines(), text.splitlines(), "pinned", "source", lineterm="", n=1))[:40])
        raise Unsupported(f"{what} changed (the hand-written model was written against tools/pins/{name}):\n" + d)
