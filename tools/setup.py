"""setup: regenerate the Gen.v of every claimed property, build their .vo files (full coqc build via
coq_makefile/make), build their model runners.  Properties not listed in tools/claimed.txt (still being
built) are ignored."""
from __future__ import annotations

import importlib
import os
import sys

from . import pyextract as px
from .vlib import COQ, NPROC, VERIF, Check, Lock, sh

PROPS = sorted(open(os.path.join(VERIF, "tools", "claimed.txt")).read().split())


def main() -> int:
    rc = 0
    for pid in PROPS:
        mod = importlib.import_module(f"tools.{pid.lower()}")
        if hasattr(mod, "gen"):
            try:
                mod.gen()
            except px.Unsupported as e:
                print(f"setup: translator for {pid} stopped: {e}")
                rc = 1
    targets = []
    for pid in PROPS:
        targets.append(f"{pid}/Props.vo")
        if os.path.exists(os.path.join(COQ, pid, "Extract.v")):
            targets.append(f"{pid}/Extract.vo")
    with Lock():
        sh(["sh", "./mkproject.sh"], cwd=COQ)
        code, out, err = sh(["make", "-k", "-f", "Makefile.coq", f"-j{NPROC}", *targets], cwd=COQ, timeout=3400)
    print(out[-1500:])
    missing = [t for t in targets if not os.path.exists(os.path.join(COQ, t))]
    if code != 0 or missing:
        print(err[-4000:])
        print(f"setup: coq build failed for {missing or 'some targets'}")
        rc = 1
    for pid in PROPS:
        if os.path.exists(os.path.join(COQ, pid, "driver.ml")):
            chk = Check(pid, "quick", 0)
            if not chk.build_modelrun(pid):
                print(f"setup: model runner for {pid} failed to build")
                rc = 1
    print("setup: ok" if rc == 0 else "setup: FAILED")
    return rc


if __name__ == "__main__":
    sys.exit(main())
