"""setup: regenerate every Gen.v, build all .vo files, build every model runner."""
from __future__ import annotations

import importlib
import os
import sys

from . import pyextract as px
from .vlib import COQ, NPROC, Check, Lock, sh

import glob

PROPS = sorted(os.path.basename(f)[:-3].upper() for f in glob.glob(os.path.join(os.path.dirname(__file__), "c[0-9][0-9].py")))


def main() -> int:
    rc = 0
    for pid in PROPS:
        mod = importlib.import_module(f"tools.{pid.lower()}")
        if hasattr(mod, "gen"):
            try:
                mod.gen()
            except px.Unsupported as e:
                print(f"setup: translator for {pid} stopped: {e}")
                rc = 1
    with Lock():
        sh(["sh", "./mkproject.sh"], cwd=COQ)
        code, out, err = sh(["make", "-k", "-f", "Makefile.coq", f"-j{NPROC}"], cwd=COQ, timeout=3000)
    print(out[-3000:])
    if code != 0:
        print(err[-6000:])
        print("setup: coq build had failures (make -k); the checks of the affected properties will report them")
        if not all(os.path.exists(os.path.join(COQ, "lib", f + ".vo")) for f in ("Bytes", "BytesFacts", "Utf8", "Utf8Facts", "ExtractBase")):
            print("setup: FAILED (shared library did not build)")
            return 1
    for pid in PROPS:
        if os.path.exists(os.path.join(COQ, pid, "driver.ml")):
            chk = Check(pid, "quick", 0)
            if not chk.build_modelrun(pid):
                print(f"setup: model runner for {pid} failed to build")
                rc = 1
    print("setup: ok" if rc == 0 else "setup: FAILED")
    return rc


if __name__ == "__main__":
    sys.exit(main())
