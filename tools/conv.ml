(* glue between OCaml ints/strings and the extracted positive / n / z / nat (ExtrOcamlBasic only) *)
let rec pos_of_int (i : int) : positive =
  if i = 1 then XH else if i land 1 = 0 then XO (pos_of_int (i lsr 1)) else XI (pos_of_int (i lsr 1))
let n_of_int (i : int) : n = if i = 0 then N0 else Npos (pos_of_int i)
let rec int_of_pos (p : positive) : int =
  match p with XH -> 1 | XO q -> 2 * int_of_pos q | XI q -> 2 * int_of_pos q + 1
let int_of_n (x : n) : int = match x with N0 -> 0 | Npos p -> int_of_pos p
let z_of_int (i : int) : z = if i = 0 then Z0 else if i > 0 then Zpos (pos_of_int i) else Zneg (pos_of_int (-i))
let int_of_z (x : z) : int = match x with Z0 -> 0 | Zpos p -> int_of_pos p | Zneg p -> - (int_of_pos p)
let rec nat_of_int (i : int) : nat = if i <= 0 then O else S (nat_of_int (i - 1))
let rec int_of_nat (x : nat) : int = match x with O -> 0 | S y -> 1 + int_of_nat y
(* "1,2,3" <-> list n ; "-" is the empty list *)
let nlist_of_csv (s : string) : n list =
  if s = "-" || s = "" then [] else List.map (fun t -> n_of_int (int_of_string t)) (String.split_on_char ',' s)
let csv_of_nlist (l : n list) : string =
  if l = [] then "-" else String.concat "," (List.map (fun x -> string_of_int (int_of_n x)) l)
(* hex <-> list n *)
let nlist_of_hex (s : string) : n list =
  if s = "-" || s = "" then [] else
  List.init (String.length s / 2) (fun i -> n_of_int (int_of_string ("0x" ^ String.sub s (2 * i) 2)))
let hex_of_nlist (l : n list) : string =
  if l = [] then "-" else String.concat "" (List.map (fun x -> Printf.sprintf "%02x" (int_of_n x)) l)
let fields (line : string) : string list = String.split_on_char ' ' line
let iter_lines (f : string -> string) : unit =
  try while true do
    let l = input_line stdin in
    print_string (try f l with e -> "MODEL-EXN:" ^ Printexc.to_string e); print_char '\n'
  done with End_of_file -> ()
