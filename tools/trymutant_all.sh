#!/bin/sh
# tools/trymutant_all.sh <patch.diff> [demo.py] : apply a change in a scratch worktree and run EVERY claimed property's quick check
# (or those in $PROPS) against it; prints which checks report a violation (with or without a concrete input).
DIFF="$(realpath "$1")"; DEMO="${2:+$(realpath "$2")}"
WT="/tmp/tryall-$$"
cd /verif || exit 2
git -C /repo worktree add -q "$WT" HEAD || exit 2
mkdir -p /tmp/tryall-ev-$$; cp evidence/*.json /tmp/tryall-ev-$$/
trap 'cp /tmp/tryall-ev-'$$'/*.json /verif/evidence/; rm -rf /tmp/tryall-ev-'$$'; git -C /repo worktree remove --force "$WT" >/dev/null 2>&1; cd /verif && for p in $(cat tools/claimed.txt); do l=$(echo $p | tr A-Z a-z); PYTHONPATH=/repo/src:/verif /venv/bin/python -c "from tools import $l as m, c03; (m.gen if hasattr(m, \"gen\") else (lambda: c03.write_gen(\"C03\")))()" >/dev/null 2>&1; done' EXIT
if [ -n "$DEMO" ]; then PYTHONPATH="$WT/src" /venv/bin/python "$DEMO" >/dev/null 2>&1; echo "demo on clean tree: exit $?"; fi
git -C "$WT" apply "$DIFF" || { echo "patch does not apply"; exit 2; }
if [ -n "$DEMO" ]; then PYTHONPATH="$WT/src" /venv/bin/python "$DEMO" >/dev/null 2>&1; echo "demo on mutant: exit $?"; fi
for p in ${PROPS:-$(cat tools/claimed.txt)}; do
  out=$(VERIF_REPO="$WT" timeout 1500 ./check $p --tier quick 2>&1)
  if echo "$out" | grep -q "^VIOLATION.*no-failing-input-found"; then echo "$p: reported (no-failing-input-found)";
  elif echo "$out" | grep -q "^VIOLATION"; then echo "$p: CAUGHT with a concrete input";
  elif echo "$out" | grep -q "done rc=0"; then :; else echo "$p: ERROR $(echo "$out" | tail -1 | cut -c1-80)"; fi
done
