"""C02  Form data survives encode -> parse unchanged (multipart and urlencoded)."""
from __future__ import annotations

import ast
import io
import os

from . import pyextract as px
from .vlib import COQ, Check, cps, hexs, uncps, with_timeout

PID = "C02"
CLAIM = dict(
    text="Coq theorems over executable models of urls._urlencode (stdlib urlencode/quote_plus with werkzeug's safe set, table "
         "regenerated from the source) and urllib.parse.parse_qsl/unquote with werkzeug's error handler: every list of Unicode "
         "key/value pairs (repeated keys, empty keys and values included) round-trips; and of MultipartEncoder.send_event "
         "(state machine and framing, byte templates regenerated from the source), composed with C01's decoder theorems into the "
         "sans-io round trip for every chunking, and of test.stream_encode_multipart (the test client / EnvironBuilder encoder; "
         "statements pinned): its wire bytes do not depend on how file contents are read and decode back to the items. "
         "The models are compared with the "
         "implementation (extracted OCaml vs werkzeug), and impl-level oracles run the three end-to-end paths "
         "(MultipartEncoder->MultipartDecoder, stream_encode_multipart->MultiPartParser, EnvironBuilder->Request.form/files/args).",
    note="Trusted: Coq kernel; translator (safe-set table computed with CPython's quote from the safe string in the source; encoder "
         "byte templates); extraction + driver; hand-written models of stdlib quote_plus/urlencode/parse_qsl/unquote validated "
         "differentially; the multipart decode half rests on C01's model and theorems; the header list of a file item (FileStorage "
         "headers after Content-Type is set / guessed) is an input of the client model; EnvironBuilder, CombinedMultiDict, "
         "FileStorage, content-type guessing are glue covered by the end-to-end harness only.",
    design="6/C02")


CLIENT_LOOP = """for key, value in _iter_data(data):
    reader = getattr(value, 'read', None)
    if reader is not None:
        filename = getattr(value, 'filename', getattr(value, 'name', None))
        content_type = getattr(value, 'content_type', None)
        if content_type is None:
            content_type = filename and mimetypes.guess_type(filename)[0] or 'application/octet-stream'
        headers = value.headers
        headers.update([('Content-Type', content_type)])
        if filename is None:
            write_binary(encoder.send_event(Field(name=key, headers=headers)))
        else:
            write_binary(encoder.send_event(File(name=key, filename=filename, headers=headers)))
        while True:
            chunk = reader(N)
            if not chunk:
                write_binary(encoder.send_event(Data(data=chunk, more_data=False)))
                break
            write_binary(encoder.send_event(Data(data=chunk, more_data=True)))
    else:
        if not isinstance(value, str):
            value = str(value)
        write_binary(encoder.send_event(Field(name=key, headers=Headers())))
        write_binary(encoder.send_event(Data(data=value.encode(), more_data=False)))"""


def gen() -> None:
    urls = px.load("urls.py")
    fn = px.find_def(urls, "_urlencode")
    safe = None
    for n in ast.walk(fn):
        if isinstance(n, ast.Call) and isinstance(n.func, ast.Name) and n.func.id == "urlencode":
            for kw in n.keywords:
                if kw.arg == "safe":
                    safe = px.const(kw.value)
                elif kw.arg is not None:
                    raise px.Unsupported(f"_urlencode passes {kw.arg}= to urlencode (the model assumes quote_plus, utf-8, strict)")
            if len(n.args) != 1:
                raise px.Unsupported("_urlencode call shape changed")
    if not isinstance(safe, str) or not safe.isascii():
        raise px.Unsupported("_urlencode safe= string not found / not ASCII")
    from urllib.parse import quote_from_bytes
    table = [b for b in range(256) if quote_from_bytes(bytes([b]), safe=safe) == chr(b)]
    mp = px.load("sansio/multipart.py")
    se = px.find_method(px.find_class(mp, "MultipartEncoder"), "send_event")
    found = []
    for n in ast.walk(se):
        if isinstance(n, ast.Constant) and isinstance(n.value, bytes):
            found.append((n.lineno, n.col_offset, n.value))
        elif isinstance(n, ast.JoinedStr) and "Cannot generate" not in ast.unparse(n):
            found.append((n.lineno, n.col_offset, ast.unparse(n).encode()))
    consts = [c for _, _, c in sorted(found)]     # source order
    want = 9
    if len(consts) != want:
        raise px.Unsupported(f"MultipartEncoder.send_event has {len(consts)} byte/f-string literals, model expects {want}: {consts}")
    # test.stream_encode_multipart: the statements coq/C02/Client.v stands for (the event sequence fed to the encoder)
    tst = px.load("test.py")
    sem = px.find_def(tst, "stream_encode_multipart")
    loops = [st for st in sem.body if isinstance(st, ast.For)]
    if len(loops) != 1:
        raise px.Unsupported(f"stream_encode_multipart has {len(loops)} top-level for loops, the model has 1")
    read_sizes = [n for n in ast.walk(loops[0]) if isinstance(n, ast.Call) and isinstance(n.func, ast.Name) and n.func.id == "reader"]
    if len(read_sizes) != 1 or len(read_sizes[0].args) != 1 or not isinstance(px.const(read_sizes[0].args[0]), int) \
            or px.const(read_sizes[0].args[0]) <= 0:
        raise px.Unsupported("stream_encode_multipart: expected exactly one reader(<positive int>) call")
    read_size = px.const(read_sizes[0].args[0])
    loop_text = ast.unparse(loops[0]).replace(f"reader({read_size})", "reader(N)")
    if loop_text != CLIENT_LOOP:
        raise px.Unsupported("stream_encode_multipart: the loop over the data changed; coq/C02/Client.v models\n" + CLIENT_LOOP
                             + "\nbut the source says\n" + loop_text)
    stmts = [ast.unparse(st) for st in sem.body]
    i = stmts.index(ast.unparse(loops[0]))
    if stmts[i - 2: i] != ["encoder = MultipartEncoder(boundary.encode())", "write_binary(encoder.send_event(Preamble(data=b'')))"] \
            or stmts[i + 1] != "write_binary(encoder.send_event(Epilogue(data=b'')))":
        raise px.Unsupported(f"stream_encode_multipart: statements around the loop changed: {stmts[i - 2: i + 2]}")
    # statement skeletons of what the hand-written models stand for (the literals and the safe string are regenerated above)
    fpm = px.load("formparser.py")
    fdp = px.find_class(fpm, "FormDataParser")
    sreq = px.find_class(px.load("sansio/request.py"), "Request")
    sk = [("sansio.multipart", px.find_class(mp, "MultipartEncoder")), ("urls", fn),
          ("formparser.FormDataParser", px.find_method(fdp, "parse")), ("formparser.FormDataParser", px.find_method(fdp, "_parse_multipart")),
          ("sansio.request.Request", px.find_method(sreq, "args")), ("test", px.find_def(tst, "_iter_data"))]
    holes = {ast.unparse(i.test): "<LIMIT-CONDITION>" for i in px.ifs_raising(px.find_method(fdp, "_parse_urlencoded"), "RequestEntityTooLarge")}
    sk_text = "\n".join(f"## {o}.{f.name}\n" + px.skeleton(f, deep=True) for o, f in sk)
    sk_text += "\n## formparser.FormDataParser._parse_urlencoded\n" + px.skeleton(px.find_method(fdp, "_parse_urlencoded"), holes) + "\n"
    px.check_pin("C02", "c02_forms.txt", sk_text, "statement skeleton of the form encoders / parsers")
    # the test client / environ builder glue that the end-to-end oracles stand for (EnvironBuilder -> Request.form/files/args):
    # whole classes, so that any edit of this glue is at least reported
    glue = [("test", px.find_class(tst, "EnvironBuilder")), ("test", px.find_def(tst, "encode_multipart")),
            ("test.Client", px.find_method(px.find_class(tst, "Client"), "open")),
            ("test.Client", px.find_method(px.find_class(tst, "Client"), "resolve_redirect")),
            ("test", px.find_def(tst, "run_wsgi_app")), ("test", px.find_def(tst, "create_environ")),
            ("datastructures.file_storage", px.find_class(px.load("datastructures/file_storage.py"), "FileStorage")),
            ("datastructures.file_storage", px.find_class(px.load("datastructures/file_storage.py"), "FileMultiDict")),
            ("formparser", px.find_def(fpm, "default_stream_factory")),
            ("formparser.MultiPartParser", px.find_method(px.find_class(fpm, "MultiPartParser"), "start_file_streaming")),
            ("formparser.MultiPartParser", px.find_method(px.find_class(fpm, "MultiPartParser"), "get_part_charset"))]
    px.check_pin("C02", "c02_client_glue.txt", "\n".join(f"## {o}.{f.name}\n" + px.skeleton(f, deep=True) for o, f in glue) + "\n",
                 "statement skeleton of the test client / environ builder glue")
    text = px.HEADER.format(tool="c02.py", src="urls.py, sansio/multipart.py, test.py")
    text += f"Definition client_read_size : N := {read_size}.\n"
    text += f"Definition urlencode_safe_text : list N := {px.coq_string_codes(safe)}.\n"
    text += f"Definition urlencode_pass : list (N * N) := {px.coq_ranges(table)}.\n"
    text += "Definition encoder_literals : list (list N) :=\n  [" + ";\n   ".join(px.coq_string_codes(c) for c in consts) + "].\n"
    px.write_if_changed(os.path.join(COQ, "C02", "Gen.v"), text)


# ====================================================================== harness

TEXT_ALPHA = ["a", "b", "Z", "0", " ", "+", "&", "=", "%", "%41", "%zz", "%0A", "%0D", "%0a", "%0d", "%5C", "%25", "%20", "%3B", "%2522", "/", "?", "#", ";", "é", "€", "\U0001f600", "\x00", "\n", "\r\n",
              "'", "~", "-", "_", ".", "!", "*", "(", ")", ",", ":", "@", "$", "\x7f", "\xa0", "ÿ",
              # characters str.splitlines / str.strip / str.isspace treat specially but bytes.splitlines does not
              "\x0b", "\x0c", "\x1c", "\x1d", "\x1e", "\x1f", "\x85", "\u2028", "\u2029", "\u3000", "\t"]
NAME_FORBIDDEN = set('"\\\r\n')


def gen_text(rng, maxlen=8) -> str:
    return "".join(rng.choice(TEXT_ALPHA) for _ in range(rng.randint(0, maxlen)))


def gen_name(rng) -> str:
    while True:
        s = "".join(c for c in gen_text(rng, 5) if c not in NAME_FORBIDDEN and c != "\x00") or "n"
        if "%22" not in s:
            return s


def gen_payload(rng, B: bytes) -> bytes:
    atoms = [b"\r\n", b"\r", b"\n", b"--", b"-", B, b"--" + B, b"--" + B[:-1], b"\r\n--" + B[:-1], b"abc", b"\x00\xff", b"x" * 50, b" ", b"\r\n--"]
    p = b"".join(rng.choice(atoms) for _ in range(rng.choice([0, 0, 1, 2, 4, 7])))
    # the payload, preceded by the line break that starts the body, must not contain a delimiter line
    # (the decoder accepts CRLF, bare LF and bare CR line breaks, so none of them may precede --B)
    q = b"\r\n" + p
    for l in (b"\n", b"\r"):
        q = q.replace(l + b"--" + B, l + b"-~" + B)
    return q[2:]


def run(chk: Check) -> None:
    from urllib.parse import parse_qsl

    from werkzeug.datastructures import FileStorage, Headers, MultiDict
    from werkzeug.formparser import MultiPartParser
    from werkzeug.sansio import multipart as M
    from werkzeug.test import EnvironBuilder, stream_encode_multipart
    from werkzeug.urls import _urlencode
    from werkzeug.wrappers import Request
    rng = chk.rng
    quick = chk.tier == "quick"
    lines, impl = [], []

    def items_str(items):
        return "|".join(f"{cps(k)}={cps(v)}" for k, v in items) or "~"

    # ---------------- urlencoded: model vs implementation, and the round trip on the implementation
    n = 4000 if quick else 60000
    for _ in range(n):
        items = [(gen_text(rng, 5), gen_text(rng, 6)) for _ in range(rng.choice([0, 1, 1, 2, 3, 5]))]
        if rng.random() < 0.3 and items:
            items.append((items[0][0], gen_text(rng)))        # repeated key
        enc = _urlencode(items)
        lines.append(f"urlencode {items_str(items)}")
        impl.append(cps(enc))
        back = parse_qsl(enc, keep_blank_values=True, errors="werkzeug.url_quote")
        if back != items:
            chk.fail("urlencoded-roundtrip", f"parse_qsl(_urlencode(items)) = {back!r}", {"items": items, "encoded": enc})
        chk.case(("ue", tuple(items)), bool(items), sample={"items": items, "encoded": enc[:80]})
        chk.count("urlencode")
    # parse side on hostile query strings
    QA = ["a", "b", "=", "&", "+", "%", "%4", "%41", "%E2%82%AC", "%e2%82", "%ff", "%C3%A9", "%zz", "é", "€", " ", ";", "%2", "%%", "&&", "=="]
    for _ in range(n):
        qs = "".join(rng.choice(QA) for _ in range(rng.randint(0, 10)))
        lines.append(f"parse_qsl {cps(qs)}")
        impl.append(items_str(parse_qsl(qs, keep_blank_values=True, errors="werkzeug.url_quote")))
        chk.case(("pq", qs), bool(qs))
        chk.count("parse_qsl")

    # ---------------- encoder: model vs implementation on event sequences (valid and invalid order)
    def gen_events():
        B = rng.choice([b"B", b"bound", b"----WebKitFormBoundary7MA4YWxk", b"x" * rng.randint(1, 70)])
        evs, toks = [], []
        valid = rng.random() < 0.8
        if valid:
            if rng.random() < 0.8:
                d = rng.choice([b"", b"pre"])
                evs.append(M.Preamble(data=d)); toks.append(f"P;{hexs(d)}")
            for _ in range(rng.choice([0, 1, 2, 3])):
                name = gen_name(rng)
                hdrs = [(rng.choice(["Content-Type", "X-A", "content-disposition", "Content-Disposition"]), rng.choice(["text/plain", "v", "é"]))
                        for _ in range(rng.choice([0, 0, 1, 2]))]
                ht = "^".join(f"{cps(a)}~{cps(b)}" for a, b in hdrs) or "~"
                if rng.random() < 0.4:
                    fn = gen_name(rng) if rng.random() < 0.8 else ""
                    evs.append(M.File(name=name, filename=fn, headers=Headers(hdrs))); toks.append(f"L;{cps(name)};{cps(fn)};{ht}")
                else:
                    evs.append(M.Field(name=name, headers=Headers(hdrs))); toks.append(f"F;{cps(name)};{ht}")
                payload = gen_payload(rng, B)
                cuts = sorted(rng.randrange(len(payload) + 1) for _ in range(rng.choice([0, 0, 1, 2, 3])))
                frs, prev = [], 0
                for c in cuts:
                    frs.append(payload[prev:c]); prev = c
                frs.append(payload[prev:])
                for i, f in enumerate(frs):
                    more = i < len(frs) - 1
                    evs.append(M.Data(data=f, more_data=more)); toks.append(f"D;{hexs(f)};{int(more)}")
            d = rng.choice([b"", b"epi"])
            evs.append(M.Epilogue(data=d)); toks.append(f"E;{hexs(d)}")
        else:
            for _ in range(rng.randint(0, 5)):
                k = rng.random()
                if k < 0.2:
                    evs.append(M.Preamble(data=b"p")); toks.append("P;70")
                elif k < 0.45:
                    evs.append(M.Field(name="a", headers=Headers())); toks.append("F;97;~")
                elif k < 0.8:
                    d, more = rng.choice([b"", b"xy"]), rng.random() < 0.5
                    evs.append(M.Data(data=d, more_data=more)); toks.append(f"D;{hexs(d)};{int(more)}")
                else:
                    evs.append(M.Epilogue(data=b"")); toks.append("E;-")
        return B, evs, toks, valid

    n_enc = 3000 if quick else 50000
    for _ in range(n_enc):
        B, evs, toks, valid = gen_events()
        enc = M.MultipartEncoder(B)
        try:
            out = b"".join(enc.send_event(e) for e in evs)
            impl.append("ok " + hexs(out))
        except ValueError:
            out = None
            impl.append("ValueError")
        lines.append("encode " + hexs(B) + (" " + " ".join(toks) if toks else ""))
        chk.case(("enc", B, tuple(toks)), bool(toks), sample={"boundary": B.decode(), "events": toks[:6]})
        chk.count("encoder:" + ("valid" if valid else "invalid-order"))
        # ---- oracle: sans-io round trip MultipartEncoder -> MultipartDecoder (every fragmentation)
        if valid and out is not None:
            want, cur = [], None
            for e in evs:
                if isinstance(e, M.File):
                    cur = ["file", e.name, e.filename, b""]
                elif isinstance(e, M.Field):
                    cur = ["field", e.name, None, b""]
                elif isinstance(e, M.Data):
                    cur[3] += e.data
                    if not e.more_data:
                        want.append(tuple(cur)); cur = None
            dec = M.MultipartDecoder(B)
            got, cur = [], None
            try:
                cutsd = sorted(rng.randrange(len(out) + 1) for _ in range(rng.choice([0, 1, 3])))
                prev = 0
                for c in cutsd + [len(out)]:
                    if c > prev:
                        dec.receive_data(out[prev:c]); prev = c
                        _drain(dec, got, M)
                dec.receive_data(None)
                _drain(dec, got, M)
            except Exception as e:  # noqa: BLE001
                got = repr(e)
            if got != want:
                chk.fail("sansio-roundtrip", f"decode(encode(events)) = {str(got)[:200]} expected {str(want)[:200]}",
                         {"boundary": B.hex(), "events": toks, "encoded": out.hex()})

    # ---------------- end to end: stream_encode_multipart -> MultiPartParser, EnvironBuilder -> Request
    n_e2e = 600 if quick else 10000
    for _ in range(n_e2e):
        fields = [(gen_name(rng), gen_text(rng, 6)) for _ in range(rng.choice([0, 1, 2, 3]))]
        files = [(gen_name(rng), gen_payload(rng, b"WerkzeugFormPart"),
                  rng.choice([gen_name(rng) + ".bin", gen_name(rng), "", " ", "a b.txt", "<draft>", "<>", "<über>", "a<b>c", "<x", "y>"]),
                  rng.choice(["application/octet-stream", "text/plain", "image/png"])) for _ in range(rng.choice([0, 0, 1, 2]))]
        data = MultiDict()
        order = [("f", x) for x in fields] + [("F", x) for x in files]
        rng.shuffle(order)
        for kind, x in order:
            if kind == "f":
                data.add(x[0], x[1])
            else:
                data.add(x[0], FileStorage(io.BytesIO(x[1]), filename=x[2], content_type=x[3]))
        args = [(gen_text(rng, 4), gen_text(rng, 5)) for _ in range(rng.choice([0, 1, 2]))]
        chk.case(("e2e", tuple(fields), tuple((a, b, c) for a, b, c, _ in files), tuple(args)), True)
        want_form = MultiDict([x for k, x in order if k == "f"])
        want_files = MultiDict([(x[0], (x[2], x[3], x[1])) for k, x in order if k == "F"])
        # EnvironBuilder -> Request (multipart when files are present, urlencoded otherwise)
        try:
            eb = EnvironBuilder(method="POST", data=data, query_string=MultiDict(args) if args else None)
            req = Request(eb.get_environ())
            got_form = MultiDict(req.form)
            got_files = MultiDict([(k, (f.filename, f.content_type, f.read())) for k, f in req.files.items(multi=True)])
            got_args = list(req.args.items(multi=True))
            eb.close()
        except Exception as e:  # noqa: BLE001
            chk.fail("environ-roundtrip-exception", f"EnvironBuilder -> Request raised {e!r}", {"fields": fields, "args": args})
            continue
        if got_form != want_form or got_files != want_files:
            chk.fail("environ-form-roundtrip", "form/files differ after EnvironBuilder -> Request",
                     {"fields": fields, "files": [(a, b.hex(), c, d) for a, b, c, d in files],
                      "got_form": repr(list(got_form.items(multi=True)))[:300], "got_files": repr(list(got_files.items(multi=True)))[:300]})
        if got_args != list(MultiDict(args).items(multi=True)):
            chk.fail("environ-args-roundtrip", f"args {got_args!r} != {args!r}", {"args": args})
        # the same query given as TEXT (raw, not percent-encoded UTF-8: what EnvironBuilder(query_string=str) and servers that
        # pass the bytes through as latin-1 put into QUERY_STRING) must come back unchanged as well
        raw_alpha = ["a", "Z", "0", "é", "ü", "€", "Ж", "\U0001f600", "東", "-", "."]
        rpairs = [("".join(rng.choice(raw_alpha) for _ in range(rng.randint(1, 3))), "".join(rng.choice(raw_alpha) for _ in range(rng.randint(0, 4))))
                  for _ in range(rng.choice([1, 2, 3]))]
        rtext = "&".join(k + "=" + v for k, v in rpairs)
        try:
            env1 = EnvironBuilder(path="/p", query_string=rtext).get_environ()
            env2 = EnvironBuilder(path="/p").get_environ()
            env2["QUERY_STRING"] = rtext.encode().decode("latin1")
            for route, env in (("builder-text", env1), ("server-latin1", env2)):
                rq = Request(env)
                got = list(rq.args.items(multi=True))
                if got != list(MultiDict(rpairs).items(multi=True)) or rq.query_string != rtext.encode():
                    chk.fail("environ-raw-query-roundtrip", f"{route}: args {got!r} / query_string {rq.query_string!r} for {rtext!r}",
                             {"route": route, "query": rtext})
        except Exception as e:  # noqa: BLE001
            chk.fail("environ-roundtrip-exception", f"raw query {rtext!r} raised {e!r}", {"query": rtext})
        # stream_encode_multipart -> MultiPartParser with a random buffer size
        data2 = MultiDict()
        for kind, x in order:
            if kind == "f":
                data2.add(x[0], x[1])
            else:
                data2.add(x[0], FileStorage(io.BytesIO(x[1]), filename=x[2], content_type=x[3]))
        boundary = rng.choice(["B", "bnd-1", "----WebKitFormBoundary7MA4YWxkTrZu0gW", "a" * 70])
        stream, length, b2 = stream_encode_multipart(data2, use_tempfile=False, boundary=boundary)
        # the same call against the model of the test client's encoder (coq/C02/Client.v): byte-exact wire
        lines.append("senc " + hexs(boundary.encode()) + "".join(" " + t for t in _item_tokens(data2, {})))
        impl.append("ok " + hexs(stream.read()))
        stream.seek(0)
        # ... and once more with file objects whose read() returns short chunks and with non-str text values: the wire must
        # not depend on how the contents were read
        data3, reads = MultiDict(), {}
        for kind, x in order:
            if kind == "f":
                data3.add(x[0], rng.choice([x[1], rng.randint(-5, 10 ** 6), 1.5, True, None]) if rng.random() < 0.2 else x[1])
            else:
                fs = FileStorage(_ShortReader(x[1], rng, reads), filename=x[2], content_type=x[3])
                data3.add(x[0], fs)
        try:
            s3, _, _ = stream_encode_multipart(data3, use_tempfile=rng.random() < 0.5, threshold=rng.choice([0, 10, 100, 10 ** 6]), boundary=boundary)
            w3 = "ok " + hexs(s3.read())
            s3.close()
        except Exception as e:  # noqa: BLE001
            w3 = "exn:" + type(e).__name__
        lines.append("senc " + hexs(boundary.encode()) + "".join(" " + t for t in _item_tokens(data3, reads)))
        impl.append(w3)
        # the property itself on that wire: every upload comes back byte for byte although its file object returned short reads
        if w3.startswith("ok ") and not clash_of(order, boundary):
            try:
                wire3 = unhex(w3[3:])
                _, fl3 = MultiPartParser().parse(io.BytesIO(wire3), boundary.encode(), len(wire3))
                got3 = [(k, f.read()) for k, f in fl3.items(multi=True)]
            except Exception as e:  # noqa: BLE001
                got3 = repr(e)
            # wire order = data3.items(multi=True): grouped by key (a field and a file may share a name)
            want3 = [(k, v.stream.data) for k, v in data3.items(multi=True) if getattr(v, "read", None) is not None]
            if got3 != want3:
                chk.fail("client-short-read-upload", "an upload whose file object returns short reads did not come back identical",
                         {"files": [(x[0], x[1].hex()) for k, x in order if k == "F"], "boundary": boundary,
                          "got": repr(got3)[:300]})
        try:
            form, fl = MultiPartParser(buffer_size=rng.choice([1, 7, 64, 1 << 16])).parse(stream, b2.encode(), length)
            got2 = (MultiDict(form), MultiDict([(k, (f.filename, f.content_type, f.read())) for k, f in fl.items(multi=True)]))
        except Exception as e:  # noqa: BLE001
            got2 = repr(e)
        # a file whose payload contains CRLF--boundary cannot be carried by this boundary: skip those
        clash = any(l + b"--" + b2.encode() in b"\r\n" + x[1] for l in (b"\r", b"\n") for k, x in order if k == "F")
        if not clash and got2 != (want_form, want_files):
            chk.fail("formparser-roundtrip", "fields/files differ after stream_encode_multipart -> MultiPartParser",
                     {"fields": fields, "files": [(a, b.hex(), c, d) for a, b, c, d in files], "boundary": b2, "got": str(got2)[:300]})
        chk.count("e2e")

    # ---------------- a caller-supplied input_stream positioned AFTER an already consumed head: the builder declares the
    # remaining length and the request reads exactly the encoded form (both encodings)
    from werkzeug.test import encode_multipart as _encmp
    for _ in range(60 if quick else 1500):
        fields = [(gen_name(rng), gen_text(rng, 6)) for _ in range(rng.choice([1, 2, 3]))]
        head = bytes(rng.randrange(256) for _ in range(rng.choice([0, 1, 7, 100, 70000])))
        tail = b""          # nothing may follow: the builder reads to the end of the stream
        if rng.random() < 0.5:
            bnd, wire = _encmp(MultiDict(fields), boundary=rng.choice(["B", "bnd-1", "x" * 40]))
            ctype = f"multipart/form-data; boundary={bnd}"
        else:
            from werkzeug.urls import _urlencode as _ue
            wire, ctype = _ue(fields).encode("ascii"), "application/x-www-form-urlencoded"
        st = io.BytesIO(head + wire + tail)
        st.seek(len(head))
        try:
            req = Request(EnvironBuilder(method="POST", input_stream=st, content_type=ctype).get_environ())
            got = (req.content_length, list(req.form.items(multi=True)))
        except Exception as e:  # noqa: BLE001
            got = repr(e)
        want = (len(wire), list(MultiDict(fields).items(multi=True)))
        if got != want:
            chk.fail("builder-input-stream-offset", f"input_stream positioned at {len(head)}: request read {str(got)[:200]}, expected {str(want)[:200]}",
                     {"head_len": len(head), "content_type": ctype, "fields": fields})
        chk.case(("instream", len(head), ctype, tuple(fields)), True)

    # ---------------- per-part charset of a text field (Content-Type: text/plain; charset=...): the field text survives for every
    # spelling of the four charsets the parser honours (ascii, us-ascii, utf-8, iso-8859-1; any letter case, quoted or not);
    # any other charset is read as UTF-8 with replacement
    import codecs as _codecs
    honoured = {"ascii": "ascii", "us-ascii": "ascii", "utf-8": "utf-8", "iso-8859-1": "latin-1"}
    texts = ["plain", "caf\u00e9 \u00fc\u00df", "\u20ac uro \U0001f600", "", "a\u00e9" * 30]
    spellings = ["utf-8", "UTF-8", "Utf-8", "iso-8859-1", "ISO-8859-1", "Iso-8859-1", "us-ascii", "US-ASCII", "ascii", "ASCII",
                 '"iso-8859-1"', '"ISO-8859-1"', "latin-1", "utf-16", "cp1252", "ISO-8859-15", ""]
    for sp in spellings:
        for text in texts:
            name = sp.strip('"').lower()
            enc = honoured.get(name)
            try:
                raw = text.encode(enc) if enc else text.encode("utf-8")
            except UnicodeEncodeError:
                continue
            want = raw.decode(enc) if enc and enc != "ascii" else raw.decode("utf-8", "replace")
            if enc == "ascii":
                want = raw.decode("ascii")
            ctype = "text/plain" + (f"; charset={sp}" if sp else "")
            body = (b"--B\r\nContent-Disposition: form-data; name=\"t\"\r\nContent-Type: " + ctype.encode() + b"\r\n\r\n" + raw
                    + b"\r\n--B--\r\n")
            try:
                form, _ = MultiPartParser(buffer_size=rng.choice([1, 5, 1 << 16])).parse(io.BytesIO(body), b"B", len(body))
                got = form.get("t")
            except Exception as e:  # noqa: BLE001
                got = repr(e)
            if got != want:
                chk.fail("part-charset", f"text field sent as {ctype!r}: parsed {got!r}, expected {want!r}", {"content_type": ctype, "text": text})
            chk.case(("charset", sp, text), True)

    # ---------------- sizes at the library's internal thresholds: 16384 (the encoder's read size), 65536 (the form parser's
    # default buffer), 1024*500 (stream_encode_multipart's spill-over to a temporary file and the SpooledTemporaryFile limit of
    # default_stream_factory): byte-exact contents on both sides of each, through both end-to-end routes
    sizes = [16383, 16384, 16385, 32768, 65535, 65536, 65537, 1024 * 500 - 1, 1024 * 500, 1024 * 500 + 1]
    if not quick:
        sizes += [2 * 65536 - 1, 2 * 65536 + 1, 1024 * 500 - 200, 1024 * 500 + 200, 1024 * 1000 + 3]
    for size in sizes:
        blob = bytes((i * 131 + (i >> 8) * 7 + size) & 0xFF for i in range(size))
        # keep it a legal payload for the boundary in use
        blob = blob.replace(b"\r", b"r").replace(b"\n", b"n")
        for route in ("environ", "stream"):
            try:
                if route == "environ":
                    eb = EnvironBuilder(method="POST", data={"t": "x", "f": FileStorage(io.BytesIO(blob), filename="big.bin", content_type="application/octet-stream"), "u": "é"})
                    req = Request(eb.get_environ())
                    got = (req.form.get("t"), req.form.get("u"), req.files["f"].read(), req.files["f"].filename)
                    eb.close()
                else:
                    d = MultiDict([("t", "x"), ("f", FileStorage(io.BytesIO(blob), filename="big.bin", content_type="application/octet-stream")), ("u", "é")])
                    st, ln, bd = stream_encode_multipart(d, use_tempfile=True)
                    form, fl = MultiPartParser(buffer_size=rng.choice([1 << 16, 1 << 14, 4097])).parse(st, bd.encode(), ln)
                    got = (form.get("t"), form.get("u"), fl["f"].read(), fl["f"].filename)
                    st.close()
            except Exception as e:  # noqa: BLE001
                got = repr(e)
            if got != ("x", "é", blob, "big.bin"):
                chk.fail("large-file-roundtrip", f"{route}: a {size}-byte upload did not come back identical",
                         {"size": size, "route": route, "got": (repr(got)[:200] if not isinstance(got, tuple) else
                                                                 [got[0], got[1], len(got[2]) if isinstance(got[2], bytes) else repr(got[2]), got[3]])})
            chk.case(("large", size, route), True)
    chk.count("large-sizes", len(sizes))

    exe = chk.build_modelrun("C02")
    if not exe:
        return
    res = chk.run_model(exe, lines)
    if res is None:
        return
    mism = 0
    for ln, a, b in zip(lines, impl, res):
        if a != b:
            mism += 1
            if mism <= 3:
                chk.broken("correspondence", "C02 model vs werkzeug/urllib", f"case {ln[:300]!r}: impl {a[:200]!r} model {b[:200]!r}",
                           case={"line": ln, "impl": a, "model": b})
    chk.count("model:compared", len(lines))
    chk.count("model:mismatches", mism)


def clash_of(order, boundary: str) -> bool:
    """a file payload that contains a delimiter line for this boundary cannot be carried by it"""
    return any(l + b"--" + boundary.encode() in b"\r\n" + x[1] for l in (b"\r", b"\n") for k, x in order if k == "F")


def unhex(h: str) -> bytes:
    return b"" if h == "-" else bytes.fromhex(h)


class _ShortReader:
    """a file object whose read(n) returns between 1 and n bytes (records every chunk it handed out)"""

    def __init__(self, data: bytes, rng, log: dict):
        self.data, self.pos, self.rng, self.log = data, 0, rng, log
        log[id(self)] = []

    def read(self, n=-1):
        left = len(self.data) - self.pos
        if n is None or n < 0:
            n = left
        k = min(left, n)
        if k > 1:
            k = self.rng.choice([1, 2, k // 2 or 1, k, k])
        out = self.data[self.pos:self.pos + k]
        self.pos += k
        if out:
            self.log[id(self)].append(out)
        return out


def _item_tokens(data, reads: dict) -> list[str]:
    """the items of a MultiDict as stream_encode_multipart saw them, in the model's syntax (call AFTER encoding: the header
    list of a FileStorage is the one the encoder was given, Content-Type included)"""
    toks = []
    for k, v in data.items(multi=True):
        if getattr(v, "read", None) is None:
            toks.append(f"T;{cps(k)};{cps(v if isinstance(v, str) else str(v))}")
            continue
        fn = getattr(v, "filename", getattr(v, "name", None))
        hd = "^".join(f"{cps(n)}~{cps(x)}" for n, x in v.headers) or "~"
        if id(v.stream) in reads:
            # the model gets the file's TRUE content (as one read: C02_client_wire_reads_irrelevant), not what the encoder
            # happened to read, so an encoder that stops early disagrees with it
            chunks = [v.stream.data] if v.stream.data else []
        else:
            body = v.stream.getvalue()
            chunks = [body[i:i + 16384] for i in range(0, len(body), 16384)]
        rd = ":".join(hexs(c) for c in chunks) or "~"
        toks.append(f"L;{cps(k)};{'~' if fn is None else cps(fn)};{hd};{rd}")
    return toks


def _drain(dec, got, M):
    while True:
        ev = dec.next_event()
        if isinstance(ev, (M.NeedData, M.Epilogue)):
            return
        if isinstance(ev, M.File):
            got.append(["file", ev.name, ev.filename, b""])
        elif isinstance(ev, M.Field):
            got.append(["field", ev.name, None, b""])
        elif isinstance(ev, M.Data):
            got[-1][3] += ev.data
            if not ev.more_data:
                got[-1] = tuple(got[-1])


def main(chk: Check) -> None:
    try:
        gen()
        # C02's composition theorems rest on the C01 decoder model and the C06 option-header model
        from . import c01, c06
        c01.gen()
        c06.gen()
    except px.Unsupported as e:
        chk.broken("translator", "C02/Gen.v", str(e))
    chk.forbidden_scan()
    if chk.coq_make(["C02/Proofs.vo", "C02/Encoder.vo", "C02/ClientProofs.vo", "C02/Extract.vo"]):
        chk.audit_props("C02/Props.v")
    else:
        chk.cov["obligations"] += 1
    chk.trusted += [
        "translator tools/c02.py (safe-set table via CPython quote_from_bytes with the safe= string of _urlencode; encoder literals in source order)",
        "extraction ExtrOcamlBasic + tools/conv.ml + coq/C02/driver.ml",
        "hand-written models of urllib.parse quote_plus / urlencode / parse_qsl / unquote and of the werkzeug.url_quote error handler, validated differentially",
        "header names compared with ASCII lower-casing (Content-Disposition filter in the encoder)",
        "the decode half of the multipart round trip rests on the C01 decoder model and theorems; part identity "
        "(name / filename) rests on the C01 header-block model and the C06 parse_options_header model, each compared with "
        "the implementation by its own check",
    ]
    run(chk)
    chk.finish(rule="urlencode: lists of Unicode pairs over an alphabet of reserved characters, spaces, '+', '%', escapes, controls, non-BMP, "
                    "repeated and empty keys; parse_qsl on hostile query strings; encoder event sequences (valid with every "
                    "fragmentation incl. empty fragments, and invalid orders); end-to-end MultiDict form/files through "
                    "EnvironBuilder->Request and stream_encode_multipart->MultiPartParser. Distinct by hash of the case tuple.")
