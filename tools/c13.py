"""C13  Cookie values round-trip and cannot inject attributes."""
from __future__ import annotations

import ast
import os
import re

from . import pyextract as px
from .vlib import COQ, Check, cps, uncps

PID = "C13"
CLAIM = dict(
        text="Coq theorems over an executable model of dump_cookie / both parse_cookie levels: the escape table (a 256-value "
             "sweep re-proved against the table regenerated from the source's regex and map on every run), value round trip "
             "through both parsers for every token key and every Unicode scalar-value string, and no-injection of the emitted "
             "value; the exact attribute list in fixed order; the test client's jar (what it sends back for a dumped header "
             "is read as the value that was set; its cookie selection is RFC 6265 path-match / domain-match). The model is tied to "
             "the code by the regenerated tables/pattern pins, the statement-skeleton pin tools/pins/c13_cookies.txt and by "
             "differential execution (extracted OCaml model vs werkzeug) on ~17k cases per quick run, plus end-to-end oracles "
             "through Response.set_cookie / delete_cookie and the test client (Path, Domain, several Set-Cookie headers per response).",
        note="Trusted: Coq kernel; translator tools/c13.py; ExtrOcamlBasic extraction + driver; hand-written matcher for _cookie_re "
             "(validated differentially, header text without LF inside unquoted values); UTF-8 model; Domain/Path/Expires rendering "
             "is an input of the attribute-assembly model; the jar's storage (dict keyed by domain, path, key; expiry) is exercised end to end only.",
        design="6/C13")
PINNED_COOKIE_RE = (
    '\n    ([^=;]*)\n    (?:\\s*=\\s*\n      (\n        "(?:[^\\\\"]|\\\\.)*"\n      |\n        .*?\n      )\n    )?\n    \\s*;\\s*\n    '
)
PINNED_UNSLASH_RE = rb"\\([0-3][0-7]{2}|.)"
ATTR_ORDER = ["Domain", "Expires", "Max-Age", "Secure", "HttpOnly", "Path", "SameSite", "Partitioned"]


def gen() -> None:
    """T1: regenerate coq/C13/Gen.v from src/werkzeug/http.py and sansio/http.py."""
    http = px.load("http.py")
    sans = px.load("sansio/http.py")
    nq_pat, nq_flags = px.regex_of(px.find_assign(http, "_cookie_no_quote_re"))
    sl_pat, sl_flags = px.regex_of(px.find_assign(http, "_cookie_slash_re"))
    if not isinstance(nq_pat, str) or not isinstance(sl_pat, bytes):
        raise px.Unsupported("cookie regex types changed (str / bytes expected)")
    if not (nq_flags & re.A):
        raise px.Unsupported("_cookie_no_quote_re lost re.ASCII: class no longer a 128-entry table")
    px.single_class_pattern(nq_pat, star=True)
    px.single_class_pattern(sl_pat, star=False)
    nq_body = nq_pat[:-1]
    # with re.ASCII the class cannot match any code point >= 128 unless it is listed literally:
    # probe a spread of non-ASCII code points and refuse if one matches
    rx = re.compile(nq_body, nq_flags)
    for cp in list(range(128, 0x3000)) + [0xFF21, 0x1F600, 0x10FFFF]:
        if rx.fullmatch(chr(cp)):
            raise px.Unsupported("_cookie_no_quote_re matches a non-ASCII code point")
    nq = px.class_table(nq_body, nq_flags, range(128))
    sl = px.class_table(sl_pat, sl_flags, range(256))

    # _cookie_slash_map: evaluate exactly the literal dict and the .update(generator) statement
    ns: dict = {}
    stmts = []
    for node in http.body:
        if isinstance(node, ast.Assign) and any(isinstance(t, ast.Name) and t.id == "_cookie_slash_map" for t in node.targets):
            stmts.append(node)
        elif (isinstance(node, ast.Expr) and isinstance(node.value, ast.Call)
              and isinstance(node.value.func, ast.Attribute)
              and isinstance(node.value.func.value, ast.Name)
              and node.value.func.value.id == "_cookie_slash_map"):
            if node.value.func.attr != "update":
                raise px.Unsupported("unexpected mutation of _cookie_slash_map")
            stmts.append(node)
    if len(stmts) != 2:
        raise px.Unsupported(f"_cookie_slash_map built by {len(stmts)} statements, expected 2")
    for st in stmts:
        for n in ast.walk(st):
            if isinstance(n, ast.Name) and n.id not in {"_cookie_slash_map", "v", "range", "bytes"}:
                raise px.Unsupported(f"_cookie_slash_map uses unknown name {n.id}")
            if isinstance(n, (ast.Import, ast.Lambda, ast.Attribute)) and not (
                    isinstance(n, ast.Attribute) and n.attr in {"update", "to_bytes"}):
                raise px.Unsupported("_cookie_slash_map construction not recognised")
    code = compile(ast.Module(body=stmts, type_ignores=[]), "<slash_map>", "exec")
    exec(code, {"__builtins__": {"range": range, "bytes": bytes}}, ns)  # noqa: S102
    smap = ns["_cookie_slash_map"]
    if not all(isinstance(k, bytes) and len(k) == 1 and isinstance(v, bytes) for k, v in smap.items()):
        raise px.Unsupported("_cookie_slash_map is not a byte -> bytes table")

    ck_pat, ck_flags = px.regex_of(px.find_assign(sans, "_cookie_re"))
    us_pat, us_flags = px.regex_of(px.find_assign(sans, "_cookie_unslash_re"))

    # attribute names and order in dump_cookie's tuple
    fn = px.find_def(http, "dump_cookie")
    order = None
    for node in ast.walk(fn):
        if isinstance(node, ast.For) and isinstance(node.iter, ast.Tuple):
            try:
                order = [px.const(e.elts[0]) for e in node.iter.elts]
            except Exception as e:  # noqa: BLE001
                raise px.Unsupported("dump_cookie attribute tuple not literal") from e
    if order is None:
        raise px.Unsupported("dump_cookie attribute loop not found")

    def nm(s):
        return px.coq_string_codes(s)
    names = dict(zip(["Domain", "Expires", "MaxAge", "Secure", "HttpOnly", "Path", "SameSite", "Partitioned"], order))
    if len(order) != 8:
        raise px.Unsupported(f"dump_cookie has {len(order)} attributes, model has 8")
    # the test client's jar: the statements the model coq/C13/Jar.v stands for
    tst = px.load("test.py")
    ck = px.find_class(tst, "Cookie")
    frh = ast.unparse(px.find_method(ck, "_from_response_header"))
    trh = ast.unparse(px.find_method(ck, "_to_request_header"))
    for needle in ("header, _, parameters_str = header.partition(';')", "key, _, value = header.partition('=')",
                   "key=key.strip()", "value=value.strip()"):
        if needle not in frh:
            raise px.Unsupported(f"test.Cookie._from_response_header changed: missing {needle!r}")
    if "return f'{self.key}={self.value}'" not in trh:
        raise px.Unsupported("test.Cookie._to_request_header changed")
    # statement skeletons of everything the hand-written model stands for (layout and comments do not matter): the tables
    # and patterns above are regenerated, the statements around them are pinned
    sk = []
    for owner, fn in (("http", px.find_def(http, "dump_cookie")), ("http", px.find_def(http, "parse_cookie")),
                      ("sansio.http", px.find_def(sans, "parse_cookie")), ("sansio.http", px.find_def(sans, "_cookie_unslash_replace")),
                      ("test.Cookie", px.find_method(ck, "_from_response_header")), ("test.Cookie", px.find_method(ck, "_to_request_header")),
                      ("test.Cookie", px.find_method(ck, "_matches_request")), ("test.Cookie", px.find_method(ck, "_storage_key")),
                      ("test.Cookie", px.find_method(ck, "_should_delete")),
                      ("test.Client", px.find_method(px.find_class(tst, "Client"), "_add_cookies_to_wsgi")),
                      ("test.Client", px.find_method(px.find_class(tst, "Client"), "_update_cookies_from_response")),
                      ("test.Client", px.find_method(px.find_class(tst, "Client"), "run_wsgi_app")),
                      ("test.Client", px.find_method(px.find_class(tst, "Client"), "set_cookie")),
                      ("test.Client", px.find_method(px.find_class(tst, "Client"), "get_cookie")),
                      ("test.Client", px.find_method(px.find_class(tst, "Client"), "delete_cookie")),
                      ("sansio.response.Response", px.find_method(px.find_class(px.load("sansio/response.py"), "Response"), "set_cookie")),
                      ("sansio.response.Response", px.find_method(px.find_class(px.load("sansio/response.py"), "Response"), "delete_cookie"))):
        sk.append(f"## {owner}.{fn.name}\n" + px.skeleton(fn))
    px.check_pin("C13", "c13_cookies.txt", "\n".join(sk) + "\n", "statement skeleton of the cookie functions")
    text = px.HEADER.format(tool="c13.py", src="http.py, sansio/http.py, test.py")
    text += f"Definition cookie_no_quote_class : list (N * N) := {px.coq_ranges(nq)}.\n"
    text += f"Definition cookie_slash_class : list (N * N) := {px.coq_ranges(sl)}.\n"
    text += "Definition cookie_slash_map : list (N * list N) :=\n  [" + ";\n   ".join(
        f"({k[0]}, {px.coq_nlist(list(v))})" for k, v in sorted(smap.items())) + "]%N.\n"
    text += f"Definition cookie_re_text : list N := {px.coq_string_codes(ck_pat)}.\n"
    text += f"Definition cookie_re_flags : N := {int(ck_flags)}.\n"
    text += f"Definition cookie_unslash_re_text : list N := {px.coq_string_codes(us_pat)}.\n"
    text += f"Definition cookie_unslash_re_flags : N := {int(us_flags)}.\n"
    for k, v in names.items():
        text += f"Definition name_{k} : list N := {nm(v)}.\n"
    text += f"Definition attr_order : list (list N) := [{'; '.join(nm(o) for o in order)}].\n"
    px.write_if_changed(os.path.join(COQ, "C13", "Gen.v"), text)


# ====================================================================== harness

TOKEN_CHARS = "!#$%&'*+-.^_`|~" + "abcXYZ019"
VAL_ALPHA = (['"', ";", ",", "\\", "=", " ", "\t", "\r", "\n", "\x00", "%", "\x7f", "a", "b", "0", "7", "3", "é", "ÿ", "€",
              "\U0001f600", " ", "\x85", "\xa0"] + [chr(c) for c in range(1, 0x20)])


def _gen_value(rng) -> str:
    r = rng.random()
    if r < 0.15:
        return "".join(rng.choice("abcXYZ019!#$%&'()*+-./:<=>?@[]^_`{|}~") for _ in range(rng.randint(0, 8)))
    n = rng.randint(0, 10)
    out = []
    for _ in range(n):
        r = rng.random()
        if r < 0.7:
            out.append(rng.choice(VAL_ALPHA))
        elif r < 0.85:
            out.append(chr(rng.randint(0x20, 0x7e)))
        elif r < 0.95:
            c = rng.randint(0x80, 0xffff)
            out.append(chr(c) if not 0xD800 <= c <= 0xDFFF else "x")
        else:
            out.append(chr(rng.randint(0x10000, 0x10ffff)))
    return "".join(out)


def _gen_key(rng) -> str:
    return "".join(rng.choice(TOKEN_CHARS) for _ in range(rng.randint(1, 6)))


HDR_ATOMS = ['"', ";", "=", "\\", " ", "\t", ",", "a", "b", "k", "v", "1", "\\\"", "\\073", "\\101", "\\8", "; ", " = ",
             "\n", "\x0b", "\x1c", "\xa0", "é", "\x85", "%3B", "\\\\", "\\3", "\\37", "\\400", "ÿ", "\xc3\xa9", "\xe2\x82", "\xf0\x9f\x98\x80", "\xc0"]


def _gen_header(rng) -> str:
    r = rng.random()
    if r < 0.5:  # structured: pairs
        parts = []
        for _ in range(rng.randint(1, 4)):
            k = _gen_key(rng) if rng.random() < 0.9 else "".join(rng.choice(HDR_ATOMS) for _ in range(rng.randint(0, 3)))
            q = rng.random()
            if q < 0.15:
                parts.append(k)
                continue
            body = "".join(rng.choice(HDR_ATOMS) for _ in range(rng.randint(0, 6)))
            if q < 0.6:
                v = '"' + body + '"'
            else:
                v = body
            ws1 = rng.choice(["", "", " ", "\t"])
            ws2 = rng.choice(["", "", " "])
            parts.append(f"{k}{ws1}={ws2}{v}")
        return rng.choice(["; ", ";", " ; "]).join(parts)
    return "".join(rng.choice(HDR_ATOMS) for _ in range(rng.randint(0, 12)))


def _pairs_text(items) -> str:
    return "|".join(f"{cps(k)}={cps(v)}" for k, v in items) if items else "-"


def _value_safe(val: str) -> str | None:
    """impl-level oracle for the emitted value (property clause 2). None = fine."""
    if not val.isascii():
        return "non-ASCII character in the emitted value"
    octet = set(range(0x21, 0x7f)) - {0x22, 0x2c, 0x3b, 0x5c}
    if all(ord(c) in octet for c in val):
        return None
    if not (len(val) >= 2 and val[0] == '"' and val[-1] == '"'):
        return "value has characters outside cookie-octet but is not quoted"
    body = val[1:-1]
    i = 0
    while i < len(body):
        c = body[i]
        if c == "\\":
            if i + 1 >= len(body):
                return "dangling backslash"
            if body[i + 1] in '"\\':
                i += 2
                continue
            if i + 3 < len(body) + 0 and re.fullmatch(r"[0-3][0-7][0-7]", body[i + 1:i + 4]):
                i += 4
                continue
            return "backslash not starting an escape"
        if c == '"':
            return "unescaped quote inside the value"
        if ord(c) not in octet and c != " ":
            return f"raw character 0x{ord(c):02x} outside cookie-octet inside the quotes"
        i += 1
    return None


def run(chk: Check) -> None:
    import werkzeug.http as whttp
    import werkzeug.sansio.http as shttp
    from werkzeug.test import Client
    from werkzeug.wrappers import Request, Response

    rng = chk.rng
    quick = chk.tier == "quick"
    n_rand = 6000 if quick else 120000
    n_hdr = 8000 if quick else 150000

    # ------------------------------------------------ cases
    dump_cases: list[tuple[str, str]] = []
    # corpus first
    for v in ["a\x1ab", "\x1f", 'a"b', "a;b", "a b", "\\", "\\073", "é", "\U0001f600", "", "x=y", "a,b", "\x7f", "\x00", "\n", "\r\n; Secure"]:
        dump_cases.append(("k", v))
    single_hi = 0x300 if quick else 0x3000
    for cp in range(single_hi):
        dump_cases.append(("k", chr(cp)))
    for cp in ([0xD7FF, 0xE000, 0xFFFD, 0xFFFF, 0x10000, 0x10FFFF, 0x1F600, 0x2028, 0x3000]):
        dump_cases.append(("k", chr(cp)))
    for _ in range(n_rand):
        dump_cases.append((_gen_key(rng), _gen_value(rng)))

    lines, impl_out = [], []
    for k, v in dump_cases:
        lines.append(f"dump {cps(k)} {cps(v)}")
        try:
            hdr = whttp.dump_cookie(k, v, path=None)
            impl_out.append("ok " + cps(hdr))
        except Exception as e:  # noqa: BLE001
            hdr = None
            impl_out.append("exn")
        # ---- impl-level oracle: the property itself
        if hdr is not None:
            chk.count("dump:quoted" if hdr.endswith('"') and len(hdr) > len(k) + 2 else "dump:plain")
            val = hdr[len(k) + 1:]
            bad = _value_safe(val)
            if bad:
                chk.fail("value-not-escaped", f"dump_cookie value: {bad}", {"key": k, "value": v, "header": hdr})
            for name, parser in (("sansio", shttp.parse_cookie), ("environ", whttp.parse_cookie)):
                try:
                    got = list(parser(hdr).items(multi=True))
                except Exception as e:  # noqa: BLE001
                    got = repr(e)
                if got != [(k, v)]:
                    chk.fail("roundtrip", f"{name} parser returns {got!r}", {"key": k, "value": v, "header": hdr})
        else:
            chk.fail("dump-raises", "dump_cookie raised on a token key and text value", {"key": k, "value": v})
        chk.case(("dump", k, v), nontrivial=True, sample={"op": "dump", "key": k, "value": v, "impl": impl_out[-1][:80]})

    hdr_cases = []
    for s in ['a="b\\"c"; d=e', 'a="\\073"', 'a="b', 'a=b"c"; x', 'a="b" c; d', "=x; y=1", "a = \t b ;c", 'a="\\', 'a="\\8"', "\x1cfoo\x1c=\x1cbar\x1c",
              'a="\xc3"', 'k="a;b"', "k", ";;;", 'a="b"x"; c=d']:
        hdr_cases.append(s)
    for _ in range(n_hdr):
        hdr_cases.append(_gen_header(rng))
    for s in hdr_cases:
        lines.append(f"psans {cps(s)}")
        try:
            impl_out.append("ok " + _pairs_text(list(shttp.parse_cookie(s).items(multi=True))))
        except Exception as e:  # noqa: BLE001
            impl_out.append("exn:" + type(e).__name__)
        lines.append(f"penv {cps(s)}")
        try:
            impl_out.append("ok " + _pairs_text(list(whttp.parse_cookie(s).items(multi=True))))
        except UnicodeError:
            impl_out.append("unicode-error")
        except Exception as e:  # noqa: BLE001
            impl_out.append("exn:" + type(e).__name__)
        chk.case(("hdr", s), nontrivial=len(s) > 0, sample={"op": "parse", "header": s, "impl": impl_out[-2][:80]})

    # attribute assembly
    from urllib.parse import quote
    attr_cases = []
    n_attr = 1500 if quick else 20000
    for _ in range(n_attr):
        dom = rng.choice([None, None, "example.com", ".example.com", "example.com:8080", "bücher.example", "localhost",
                          "example.com.", "..example.com", ".example.com.", "a.b.:80", "localhost."])
        exp = rng.choice([None, None, "Thu, 01 Jan 2026 00:00:00 GMT", "x; Secure"])
        ma = rng.choice([None, None, 0, 3600, -1])
        path = rng.choice([None, "/", "/a b", "/a;b", "/é", "/%41", "/a,b=c"])
        ss = rng.choice([None, None, "strict", "LAX", "None", "nOnE"])
        sec, ho, part = rng.random() < 0.3, rng.random() < 0.3, rng.random() < 0.2
        attr_cases.append((_gen_key(rng), _gen_value(rng), dom, exp, ma, sec, ho, path, ss, part))
    # Expires synchronised from Max-Age (sync_expires, the default): present exactly when max_age is given
    # (0 and timedelta(0) included) and no explicit expires; its instant is now + max_age
    import datetime as _dt
    for ma in [0, 1, 3600, -1, _dt.timedelta(0), _dt.timedelta(seconds=5), _dt.timedelta(milliseconds=300), None,
               _dt.timedelta(days=1), _dt.timedelta(days=2, seconds=5), _dt.timedelta(days=400, hours=3), _dt.timedelta(days=-1), 86400 * 366] * (3 if quick else 30):
        for exp in (None, "Thu, 01 Jan 2026 00:00:00 GMT", 0):
            t0 = _dt.datetime.now(tz=_dt.timezone.utc).timestamp()
            hdr = whttp.dump_cookie("k", "v", max_age=ma, expires=exp, path=None)
            pieces = hdr.split("; ")[1:]
            names = [p.split("=")[0] for p in pieces]
            secs = int(ma.total_seconds()) if isinstance(ma, _dt.timedelta) else ma
            want_names = (["Expires"] if (exp is not None or ma is not None) else []) + (["Max-Age"] if ma is not None else [])
            ok = names == want_names
            if ok and exp is None and ma is not None:
                got = whttp.parse_date(dict(p.split("=", 1) for p in pieces)["Expires"])
                t1 = _dt.datetime.now(tz=_dt.timezone.utc).timestamp()
                # bracketed by the clock before and after the call (whole seconds in the header): independent of load
                ok = got is not None and t0 + secs - 1 <= got.timestamp() <= t1 + secs + 1
            if ok and ma is not None:
                ok = dict(p.split("=", 1) for p in pieces)["Max-Age"] == str(secs)
            if not ok:
                chk.fail("attributes", f"max_age={ma!r} expires={exp!r}: attributes {pieces!r}", {"max_age": repr(ma), "expires": repr(exp), "header": hdr})
            chk.case(("sync", repr(ma), repr(exp)), True)
    # Expires given as an instant (datetime of every flavour, or a timestamp): the attribute is the IMF-fixdate of that
    # instant in GMT - whatever tzinfo object carries the offset (zero-offset zones that are not the timezone.utc
    # singleton included) - and nothing raises
    class _Z(_dt.tzinfo):
        def __init__(self, minutes):
            self.m = minutes

        def utcoffset(self, dt):
            return _dt.timedelta(minutes=self.m)

        def dst(self, dt):
            return None

        def tzname(self, dt):
            return "Z%d" % self.m
    zones = [None, _dt.timezone.utc, _dt.timezone(_dt.timedelta(0)), _dt.timezone(_dt.timedelta(0), "X"),
             _dt.timezone(_dt.timedelta(hours=5, minutes=30)), _dt.timezone(_dt.timedelta(hours=-8)), _Z(0), _Z(60), _Z(-90)]
    try:
        from zoneinfo import ZoneInfo
        zones += [ZoneInfo("UTC"), ZoneInfo("Europe/London"), ZoneInfo("America/New_York")]
    except Exception:  # noqa: BLE001  (no tzdata: the custom zero-offset zone above covers the case)
        pass
    import re as _re
    imf = _re.compile(r"^(Mon|Tue|Wed|Thu|Fri|Sat|Sun), \d{2} (Jan|Feb|Mar|Apr|May|Jun|Jul|Aug|Sep|Oct|Nov|Dec) \d{4} \d{2}:\d{2}:\d{2} GMT$")
    for i in range(120 if quick else 3000):
        z = zones[i % len(zones)]
        base = _dt.datetime(rng.choice([1971, 1999, 2000, 2024, 2026, 2038, 2100]), rng.randint(1, 12), rng.randint(1, 28),
                            rng.randint(0, 23), rng.randint(0, 59), rng.randint(0, 59), rng.choice([0, 0, 999999]))
        dt = base.replace(tzinfo=z)
        instant = (dt if z is not None else base.replace(tzinfo=_dt.timezone.utc)).timestamp()
        arg = dt if i % 5 else rng.choice([int(instant), float(instant)])
        try:
            hdr = whttp.dump_cookie("k", "v", expires=arg, path=None)
            val = dict(p.split("=", 1) for p in hdr.split("; ")[1:] if "=" in p).get("Expires")
            got = whttp.parse_date(val) if val is not None else None
            ok = val is not None and imf.match(val) is not None and got is not None and int(got.timestamp()) == int(instant // 1)
            what = f"Expires attribute {val!r}"
        except Exception as e:  # noqa: BLE001
            ok, what, hdr = False, f"raised {type(e).__name__}: {e}", None
        if not ok:
            chk.fail("expires-instant", f"dump_cookie(expires={arg!r}): {what}, instant {instant}", {"expires": repr(arg), "header": hdr})
        chk.case(("expdt", repr(arg)), True)
    for (k, v, dom, exp, ma, sec, ho, path, ss, part) in attr_cases:
        rdom = dom.partition(":")[0].lstrip(".").encode("idna").decode("ascii") if dom else None
        rpath = quote(path, safe="%!$&'()*+,/:=@") if path is not None else None
        rss = ss.title() if ss is not None else None
        rma = str(ma) if ma is not None else None

        def o(x):
            return "~" if x is None else cps(x)
        lines.append(f"dumpc {cps(k)} {cps(v)} {o(rdom)} {o(exp)} {o(rma)} {int(sec)} {int(ho)} {o(rpath)} {o(rss)} {int(part)}")
        try:
            hdr = whttp.dump_cookie(k, v, domain=dom, expires=exp, max_age=ma, secure=sec, httponly=ho, path=path,
                                    samesite=ss, partitioned=part, sync_expires=False, max_size=0)
            impl_out.append("ok " + cps(hdr))
        except Exception as e:  # noqa: BLE001
            hdr = None
            impl_out.append("exn")
        if hdr is not None:
            # oracle: the header carries exactly the requested attributes, canonically spelled, in fixed order
            pieces = hdr.split("; ")
            want = []
            if rdom:
                want.append(f"Domain={rdom}")
            if exp is not None:
                want.append(f"Expires={exp}")
            if rma is not None:
                want.append(f"Max-Age={rma}")
            if sec or part:
                want.append("Secure")
            if ho:
                want.append("HttpOnly")
            if rpath is not None:
                want.append(f"Path={rpath}")
            if rss is not None:
                want.append(f"SameSite={rss}")
            if part:
                want.append("Partitioned")
            # an application-supplied Expires *string* is emitted verbatim by design; keep it out of the
            # injection oracle when it carries a ';' itself
            if exp is None or ";" not in exp:
                if pieces[1:] != want:
                    chk.fail("attributes", f"attributes {pieces[1:]!r} != requested {want!r}",
                             {"key": k, "value": v, "header": hdr})
        chk.case(("attr", k, v, dom, exp, ma, sec, ho, path, ss, part), nontrivial=True)

    # Response.set_cookie / delete_cookie (glue in sansio/response.py): the Set-Cookie header is what dump_cookie gives for the
    # same arguments (every keyword forwarded to the right parameter), and delete_cookie asks for the epoch Expires and
    # Max-Age=0 next to exactly the attributes passed on
    for (k, v, dom, exp, ma, sec, ho, path, ss, part) in attr_cases[: 400 if quick else 5000]:
        kw = dict(max_age=ma, expires=exp, path=path, domain=dom, secure=sec, httponly=ho, samesite=ss, partitioned=part)
        t_glue = _dt.datetime.now(tz=_dt.timezone.utc).timestamp()
        try:
            r = Response()
            r.set_cookie(k, v, **kw)
            got = r.headers.getlist("Set-Cookie")
            want = [whttp.dump_cookie(k, v, max_size=r.max_cookie_size, **kw)]
            if exp is None and ma is not None:
                # Expires is synthesised from the clock (sync_expires): the two calls may straddle a second, so its
                # value is compared as an instant (bracketed by the clock around both calls), the rest textually
                t1 = _dt.datetime.now(tz=_dt.timezone.utc).timestamp()
                ex = _re.compile(r"Expires=([^;]*)")
                inst = [whttp.parse_date(m.group(1)) for h in got + want for m in [ex.search(h)] if m]
                if len(inst) == 2 and all(d is not None and t_glue - 1 + ma <= d.timestamp() <= t1 + 1 + ma for d in inst):
                    got = [ex.sub("Expires=<now+max_age>", h) for h in got]
                    want = [ex.sub("Expires=<now+max_age>", h) for h in want]
        except Exception as e:  # noqa: BLE001
            got, want = "exn:" + type(e).__name__, None
            try:
                whttp.dump_cookie(k, v, **kw)
            except Exception as e2:  # noqa: BLE001
                want = "exn:" + type(e2).__name__
        if got != want:
            chk.fail("set-cookie-glue", f"Response.set_cookie header {got!r} != dump_cookie {want!r}", {"key": k, "value": v, "kw": repr(kw)})
        try:
            r = Response()
            r.delete_cookie(k, path=path, domain=dom, secure=sec, httponly=ho, samesite=ss, partitioned=part)
            pieces = r.headers["Set-Cookie"].split("; ")
            rdom = dom.partition(":")[0].lstrip(".").encode("idna").decode("ascii") if dom else None
            want = ([f"Domain={rdom}"] if rdom else []) + ["Expires=Thu, 01 Jan 1970 00:00:00 GMT", "Max-Age=0"] \
                + (["Secure"] if sec or part else []) + (["HttpOnly"] if ho else []) \
                + ([f"Path={quote(path, safe=chr(37) + '!$&()*+,/:=@' + chr(39))}"] if path is not None else []) \
                + ([f"SameSite={ss.title()}"] if ss is not None else []) + (["Partitioned"] if part else [])
            okd = pieces[1:] == want and pieces[0] in (f"{k}=", f'{k}=""')
        except Exception as e:  # noqa: BLE001
            okd, pieces = False, "exn:" + type(e).__name__
        if not okd:
            chk.fail("delete-cookie-glue", f"delete_cookie header {pieces!r}", {"key": k, "kw": repr(kw)})
        chk.case(("glue", k, v, dom, exp, ma, sec, ho, path, ss, part), True)

    # test client's jar (glue): set-cookie through a response, send back, read request.cookies
    n_jar = 300 if quick else 4000
    jar_fail = 0
    for i in range(n_jar):
        k, v = _gen_key(rng), _gen_value(rng)

        @Request.application
        def app(request, k=k, v=v):
            if request.path == "/set":
                r = Response("ok")
                r.set_cookie(k, v)
                return r
            return Response(repr(list(request.cookies.items(multi=True))))
        c = Client(app)
        try:
            c.get("/set")
            got = c.get("/get").get_data(as_text=True)
        except Exception as e:  # noqa: BLE001
            got = repr(e)
        if got != repr([(k, v)]):
            chk.fail("client-jar", f"client jar round trip gives {got}", {"key": k, "value": v})
        chk.case(("jar", k, v), nontrivial=True)
    chk.count("jar", n_jar)

    # parsing is a function of the text: a result that the caller mutates must not leak into a later parse of the same text
    # (state surviving between calls, e.g. a cached result object)
    from werkzeug.sansio import http as _sh
    for htxt in ["a=1; b=2", 'k="x\\054y"; a=1', "a=1", ""]:
        for fn_name, fn in (("sansio.parse_cookie", lambda t: _sh.parse_cookie(t)), ("http.parse_cookie", lambda t: whttp.parse_cookie(t))):
            try:
                r1 = fn(htxt)
                snap = list(r1.items(multi=True))
                r1.add("zz", "injected")
                r1.setlist("a", ["changed"])
                r2 = fn(htxt)
                if r2 is r1 or list(r2.items(multi=True)) != snap:
                    chk.fail("parse-not-pure", f"{fn_name}({htxt!r}) after the caller mutated an earlier result: {list(r2.items(multi=True))!r}, first time {snap!r}",
                             {"header": htxt, "function": fn_name})
            except Exception as e:  # noqa: BLE001
                chk.fail("parse-not-pure", f"{fn_name}({htxt!r}) raised {e!r} on the second call", {"header": htxt, "function": fn_name})
            chk.case(("pure", fn_name, htxt), True)
    # which cookies the jar sends: the model of Cookie._matches_request (coq/C13/JarMatchModel.v) against the method, and the
    # RFC 6265 path-match / domain-match oracle end to end through Client (set with Path / Domain, request another path / host)
    from werkzeug.test import Cookie as _Ck
    segs = ["", "/", "/s", "/s/", "/s/c", "/sx", "/s/c/", "/a/b", "/a/b/", "/a/bc", "/é", "/é/", "/é/x", "//", "/s//c"]
    hosts = ["localhost", "a.b", "x.a.b", "xa.b", "b", ".a.b", "a.b.", "y.x.a.b", "A.b"]

    def rfc_path(cp, rp):
        return rp == cp or (rp.startswith(cp) and (cp.endswith("/") or rp[len(cp):].startswith("/")))

    def rfc_domain(oo, dom, srv):
        return srv == dom or (not oo and srv.endswith("." + dom))
    nm = 0
    for cp in segs:
        for rp in segs:
            for (oo, dom, srv) in [(True, "localhost", "localhost")] + ([(rng.random() < 0.5, rng.choice(hosts), rng.choice(hosts))] if cp and rp else []):
                if not cp or not dom:
                    continue            # the jar never stores an empty path or domain
                c = _Ck(key="k", value="v", decoded_key="k", decoded_value="v", expires=None, max_age=None, domain=dom,
                        origin_only=oo, path=cp, secure=False, http_only=False, same_site=None)
                try:
                    got = "1" if c._matches_request(srv, rp) else "0"
                except Exception as e:  # noqa: BLE001
                    got = "exn:" + type(e).__name__
                lines.append(f"jmatch {int(oo)} {cps(dom)} {cps(cp)} {cps(srv)} {cps(rp)}")
                impl_out.append(got)
                want = rfc_path(cp, rp) and rfc_domain(oo, dom, srv)
                if got != ("1" if want else "0"):
                    chk.fail("jar-match", f"cookie path {cp!r} domain {dom!r} (origin_only={oo}) vs request {srv!r}{rp!r}: sent={got}, RFC 6265 says {want}",
                             {"cookie_path": cp, "request_path": rp, "domain": dom, "server": srv, "origin_only": oo})
                nm += 1
    chk.count("jar-match-cases", nm)
    # end to end: Set-Cookie with a Path through a response; the next requests carry it exactly where RFC 6265 says
    for cp in ["/", "/s", "/s/", "/a/b/", "/é/"]:
        @Request.application
        def app2(request, cp=cp):
            if request.path == "/__set":
                r = Response("ok")
                r.set_cookie("k", "v", path=cp)
                return r
            return Response(request.cookies.get("k", "-"))
        c = Client(app2)
        c.get("/__set")
        for rp in ["/", "/s", "/s/", "/s/c", "/sx", "/a/b", "/a/b/", "/a/b/c", "/a/bc", "/é/", "/é/x", "/é"]:
            try:
                got = c.get(quote(rp, safe="/")).get_data(as_text=True)
            except Exception as e:  # noqa: BLE001
                got = "exn:" + type(e).__name__
            want = "v" if rfc_path(cp, rp) else "-"
            if got != want:
                chk.fail("client-jar-path", f"cookie set with Path={cp!r}: request {rp!r} carried {got!r}, expected {want!r}",
                         {"cookie_path": cp, "request_path": rp})
            chk.case(("jar-e2e", cp, rp), True)
    # several Set-Cookie headers for one key in ONE response: the jar applies them in order (the last one decides)
    import itertools as _it
    for seq in _it.product(["set:1", "set:2", "del"], repeat=2):
        for seq3 in ([seq] + [seq + (x,) for x in ("set:3", "del")]):
            @Request.application
            def app4(request, seq3=seq3):
                if request.path == "/__set":
                    r = Response("ok")
                    for step in seq3:
                        if step == "del":
                            r.delete_cookie("k")
                        else:
                            r.set_cookie("k", step[4:])
                    return r
                return Response(request.cookies.get("k", "-"))
            c = Client(app4)
            c.set_cookie("k", "0")
            c.get("/__set")
            want = "-" if seq3[-1] == "del" else seq3[-1][4:]
            got = c.get("/").get_data(as_text=True)
            if got != want:
                chk.fail("client-jar-order", f"one response with {list(seq3)} for cookie k: the next request carried {got!r}, expected {want!r}",
                         {"steps": list(seq3)})
            chk.case(("jar-order", seq3), True)
    # ... and with a Domain (IDNA-encoded by dump_cookie) on internationalised host names
    for dom, setter, asks in [("bücher.example", "bücher.example", [("bücher.example", "vw"), ("sub.bücher.example", "v-"), ("xbücher.example", "--"), ("example", "--")]),
                              ("a.b", "x.a.b", [("x.a.b", "vw"), ("a.b", "v-"), ("y.a.b", "v-"), ("xa.b", "--")])]:
        @Request.application
        def app3(request, dom=dom):
            if request.path == "/__set":
                r = Response("ok")
                r.set_cookie("k", "v", domain=dom)
                r.set_cookie("d", "w")
                return r
            return Response(request.cookies.get("k", "-") + request.cookies.get("d", "-"))
        c = Client(app3)
        c.get("/__set", base_url=f"http://{setter}/")
        for host, want in asks:
            try:
                got = c.get("/", base_url=f"http://{host}/").get_data(as_text=True)
            except Exception as e:  # noqa: BLE001
                got = "exn:" + type(e).__name__
            if got != want:
                chk.fail("client-jar-domain", f"cookies set by {setter!r} with Domain={dom!r} / host-only: request to {host!r} carried {got!r}, expected {want!r}",
                         {"domain": dom, "set_on": setter, "request_host": host})
            chk.case(("jar-e2e-domain", dom, host), True)

    # the jar model (coq/C13/Jar.v) against test.Cookie on dumped and hostile Set-Cookie headers
    from werkzeug.test import Cookie as _TestCookie
    jar_hdrs = []
    for k, v in dump_cases[: 1500 if quick else 20000]:
        try:
            jar_hdrs.append(whttp.dump_cookie(k, v, secure=rng.random() < 0.3, httponly=rng.random() < 0.3, samesite=rng.choice([None, "Lax"])))
        except Exception:  # noqa: BLE001
            pass
    for _ in range(1500 if quick else 20000):
        jar_hdrs.append(_gen_header(rng).replace("\n", " "))
    for h in jar_hdrs:
        lines.append(f"jar {cps(h)}")
        try:
            impl_out.append("ok " + cps(_TestCookie._from_response_header("localhost", "/", h)._to_request_header()))
        except StopIteration:
            impl_out.append("no-cookie")
        except Exception as e:  # noqa: BLE001
            impl_out.append("exn:" + type(e).__name__)
    chk.count("jar-model-cases", len(jar_hdrs))

    # ------------------------------------------------ model side
    exe = chk.build_modelrun("C13")
    if exe:
        res = chk.run_model(exe, lines)
        if res is not None:
            mism = 0
            unsupported = 0
            for ln, a, b in zip(lines, impl_out, res):
                if ln.startswith("p") and b.startswith("ok ") and b != "ok -":
                    # MultiDict.items(multi=True) groups values by key in first-occurrence order
                    items = [x.split("=") for x in b[3:].split("|")]
                    order = []
                    for k, _ in items:
                        if k not in order:
                            order.append(k)
                    b = "ok " + "|".join(f"{k}={v}" for kk in order for k, v in items if k == kk)
                if b in ("unsupported",):
                    unsupported += 1
                    continue
                if a != b:
                    mism += 1
                    if mism <= 5:
                        chk.broken("correspondence", "C13 model vs werkzeug cookie code", f"case {ln!r}: impl {a!r} model {b!r}",
                                   case={"line": ln, "impl": a, "model": b})
            chk.count("model:unsupported(LF in unquoted value)", unsupported)
            chk.count("model:compared", len(lines) - unsupported)
            chk.count("model:mismatches", mism)


def main(chk: Check) -> None:
    try:
        gen()
    except px.Unsupported as e:
        chk.broken("translator", "C13/Gen.v", str(e))
    chk.forbidden_scan()
    if chk.coq_make(["C13/Proofs.vo", "C13/JarMatch.vo", "C13/Extract.vo"]):
        chk.audit_props("C13/Props.v")
    else:
        chk.cov["obligations"] += 1
    chk.trusted += [
        "translator tools/c13.py + tools/pyextract.py (regex character classes -> tables via CPython re; _cookie_slash_map by evaluating its two source statements)",
        "extraction ExtrOcamlBasic (Extract Inductive bool, option, unit, list, prod, sumbool, comparison; no Extract Constant) + tools/conv.ml + coq/C13/driver.ml, OCaml 4.13.1",
        "hand-written matcher for _cookie_re / _cookie_unslash_re (pattern texts pinned by C13/Gen.v), validated by differential execution against CPython re",
        "UTF-8 codec model lib/Utf8.v (strict and errors=replace), validated differentially; str.strip modelled with the interpreter's 29 white-space code points",
        "Domain (IDNA), Path (urllib.parse.quote) and Expires (http_date) rendering are inputs of the attribute-assembly model, not modelled",
    ]
    run(chk)
    chk.finish(rule="dump: every single code point below 0x300 (quick) / 0x3000 (thorough) plus random token keys x values over an "
                    "alphabet weighted to quote, semicolon, comma, backslash, controls, non-BMP; parse: structured and malformed Cookie headers; "
                    "attribute product; client jar. A case is non-trivial if it is non-empty; distinct by hash of the case tuple.")
