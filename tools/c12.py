"""C12  Router redirects stay on the bound host and converge."""
from __future__ import annotations

import itertools
from dataclasses import replace
from urllib.parse import unquote, urlsplit

from . import pyextract as px
from . import c03
from .c03 import (Adapter, Conv, MapSpec, RuleOracle, RuleSpec, Seg, D, L, _r, canon_args, domain_part, expected_url,
                  gen_map, gen_paths, gen_rule, oracle_outcomes, run_impl, variants_of)
from .vlib import Check, cps, uncps

PID = "C12"
CLAIM = dict(
    text="Coq theorems (Qed, closed under the global context) over the router model of C03 extended with the URL builder of C04 "
         "(get_default_redirect, make_alias_redirect_url, make_redirect_url, quote, urlunsplit): C12_on_host (every redirect MapAdapter.match "
         "issues is scheme://bound-host/script-root/ + a relative path without '?' or '#' + the bound query string for slash / merged-slash "
         "redirects - for every request path including '//host/...' forms - or the canonical URL the builder produced for a rule of the matched "
         "endpoint, on [subdomain.]bound-server), C12_host_is_bound_server, C12_redirect_addresses_target, C12_converges_partial (the rule that "
         "caused a slash / merged-slash redirect admits the target directly for the same method), C12_converges_one_hop (the matcher answers "
         "the follow-up of such a redirect with a direct match: no further redirect of that kind, no NotFound / 405), C12_converges (for maps "
         "without a trailing path converter the follow-up is answered by the very rule that caused the redirect, with the same arguments - an "
         "order isomorphism between the two searches of the transition tree), C12_defaults_converge and C12_alias_converge (the URL the builder "
         "produced for the canonical rule is answered by that rule and not redirected again, given a canonical rule that is not shadowed and "
         "distinct traces within the endpoint), C12_websocket_redirect_scheme (an adapter bound to a websocket request redirects to ws:// / wss://), "
         "C12_alias_redirect_scheme / C12_build_scheme_table (the alias redirect, built with MapAdapter.build, is ws / wss for a websocket rule and "
         "http / https otherwise, of the security the adapter is bound with - no downgrade), "
         "C12_redirect_to_target / C12_redirect_to_subst / C12_redirect_to_on_base (a rule with a string redirect_to answers with a redirect to "
         "scheme://host/script-root/ + the template with every <name> replaced by its converter's to_url of the matched value). "
         "Tied to the code by the regenerated constants and statement pins of coq/C03/Gen.v and by differential execution (extracted model vs "
         "werkzeug, defaults and alias redirects included) on maps x adapters (schemes, script roots, subdomains, query arguments) x paths; an "
         "impl-level oracle follows every redirect to a match of the denoted endpoint and arguments within 3 hops; adapters are bound with Map.bind "
         "and with Map.bind_to_environ on WSGI environs (raw non-ASCII and percent-encoded query strings), redirects are also followed end to "
         "end through a WSGI application and the test client, which must see the query arguments of the original request.",
    note="Trusted: as C03 and C04; urllib.parse.urlunsplit/quote hand-modelled; encode_query_args of a mapping (werkzeug.urls._urlencode) is an "
         "input of the model (the encoded string); that the follow-up of a slash redirect is a match of the very rule that caused it (not only of a "
         "priority-minimal rule serving the target) is proved for maps without a trailing path converter and checked by the harness for the rest; "
         "the defaults / alias convergence theorems take the well-formedness of the built URL (the C04 derivation) and float-free values as "
         "hypotheses; for rules with a trailing path converter the identity of the answering rule is checked on the implementation (the rule "
         "and captures at the moment SlashRequired is raised are read off the interpreter); the subdomain an adapter is bound with is an input "
         "of the model, the harness resolves Map.default_subdomain and the '<invalid>' subdomain of a server_name mismatch (statements pinned); "
         "urljoin is modelled only where it leaves the reference alone (relative, no dot / empty segments), callable redirect_to targets, alias rules without a canonical rule and rules shadowing each other's "
         "canonical URL are outside the claim.",
    design="6/C12")

SCHEMES = ["http", "http", "http", "https", "https", "https", "ws", "wss"]
SCRIPTS = ["/", "/", "/app", "/app/", "/a/b", "/a/b/", ""]
SERVERS = ["example.com", "example.com:8080", "EXAMPLE.com"]
QUERIES = [None, None, "a=1&b=2", (("q", "x y"), ("r", "é")), "", (), "x=%2F%2Fevil.com&y", "a=1#frag",
           # query_args as request.args / a MultiDict with repeated keys, a dict of lists, a list of pairs, None values, non-strings
           ("@multidict", (("k", "v"), ("q", "x y"), ("k", "w"), ("k", "é"))),
           ("@immutable", (("a", "1"), ("b", "2"), ("a", "3"))),
           ("@multidict", (("tag", "a&b"), ("tag", "c=d"), ("n", None), ("tag", "//evil.com"))),
           ("@lists", (("k", "v"), ("k", "w"), ("z", 7))),
           ("@lists1", (("k", "v"), ("k", None), ("k", "w"), ("one", "1"))),
           ("@pairs", (("b", "2"), ("a", "1"), ("b", "3")))]


ENV_QUERIES = ["q=été&lang=fr", "tag=日本", "q=%C3%A9t%C3%A9&q=%20", "a=1&b=2", "", "q=naïve&x=%2F%2Fevil.com", "k=v&k=w", "q=über+alles"]


def gen_adapter(rng, ms: MapSpec) -> Adapter:
    sub = None
    if not ms.host_matching:
        doms = [r.dom for r in ms.rules if r.dom.text() != ""]
        if doms and rng.random() < 0.8:
            d = rng.choice(doms)
            sub = d.lit if d.lit is not None else rng.choice(["api", "de", "www"])
        else:
            sub = rng.choice([None, None, "", "", "api"])
    has_ws = any(r.websocket for r in ms.rules)
    if rng.random() < 0.3:
        # bound the way an application binds: Map.bind_to_environ on a WSGI environ (query string through the environ)
        scheme = rng.choice(["http", "https"])
        upgrade = rng.random() < (0.6 if has_ws else 0.1)      # Connection: Upgrade / Upgrade: websocket -> ws / wss
        own, other = (":80", ":443") if scheme == "http" else (":443", ":80")
        c = rng.random()
        server, suffix = rng.choice(SERVERS).lower(), ""
        if c < 0.2:
            server, suffix = "example.com", own            # the scheme's own default port: dropped by get_host
        elif c < 0.45:
            server = "example.com" + other                 # the other scheme family's default port: part of the origin
        # the configured server_name does not fit the Host header: bind_to_environ warns and binds the subdomain "<invalid>"
        mismatch = not ms.host_matching and rng.random() < 0.12
        # a map with a non-empty default_subdomain: it stands in for a subdomain that is None only - a request for the bare domain
        # (bind_to_environ computes the subdomain "") stays on the bare domain
        dsub = rng.choice(["www", "api", "de"]) if (not ms.host_matching and not mismatch and rng.random() < 0.3) else None
        return Adapter(scheme=scheme, server=server, script=rng.choice(SCRIPTS), default_sub=dsub,
                       subdomain=sub, query=rng.choice(ENV_QUERIES), environ=True, host_suffix=suffix, mismatch=mismatch, upgrade=upgrade)
    # Map.default_subdomain stands in for a subdomain that is not given to Map.bind (None) - not for "" or any other given one
    dsub = rng.choice(["www", "api", "de"]) if (not ms.host_matching and rng.random() < 0.3) else None
    return Adapter(scheme=rng.choice(["ws", "wss", "wss", "ws", "https", "http"] if has_ws else SCHEMES), server=rng.choice(SERVERS).lower(),
                   script=rng.choice(SCRIPTS), subdomain=sub, query=rng.choice(QUERIES), default_sub=dsub)


def with_defaults(rng, ms: MapSpec) -> MapSpec:
    """add a group of rules for one fresh endpoint: a base rule, providers of defaults for it (the documented idiom,
    possibly two of them) and/or an alias.  The group lives under first literals of its own, so that no rule of another
    endpoint shadows a canonical URL (that, like an alias without a canonical rule, is a configuration error: outside the claim)."""
    rules = list(ms.rules)
    ep = max([r.endpoint for r in rules] + [-1]) + 1
    tag = f"g{ep}"
    var = Seg(conv=rng.choice([Conv("i"), Conv("i"), Conv("s"), Conv("i", mx=50)]), name="page")
    mid = [Seg(lit=rng.choice(["page", "p", "1"]))] if rng.random() < 0.6 else []
    if rng.random() < 0.3:
        mid.insert(0, Seg(conv=Conv("s"), name="sec"))
    dom = rng.choice([r.dom for r in rules]) if rules else Seg(lit="")
    # a websocket endpoint: its rules are websocket=True, reached by adapters bound with ws / wss (or an Upgrade request)
    wsg = rng.random() < 0.3
    b = RuleSpec(idx=0, endpoint=ep, segs=(Seg(lit=tag), *mid, var), branch=rng.random() < 0.35,
                 methods=None if wsg else rng.choice([None, None, ("GET",)]), dom=dom, strict=rng.choice([None, None, False]),
                 merge=rng.choice([None, None, False]), websocket=wsg)
    group = [b]
    dv = 1 if var.conv.kind == "i" else "a"
    c = rng.random()
    if c < 0.75:
        head = (Seg(lit=tag), *[s_ for s_ in mid if s_.lit is None])
        a = replace(b, segs=head, branch=rng.random() < 0.6, defaults=(("page", dv),))
        if rng.random() < 0.4 and not wsg:
            # the canonical (defaults) rule takes fewer methods than the explicit rule:
            # Rule('/items/', defaults={'page': 1}, methods=['GET']) next to Rule('/items/<int:page>', methods=['GET', 'POST'])
            b = replace(b, methods=("GET", "POST"))
            group[0] = b
            a = replace(a, methods=("GET",))
        group.append(a)
        if rng.random() < 0.45:      # a second provider: the first defined one is the canonical URL
            group.append(replace(a, segs=(Seg(lit=tag + "x"),) + tuple(head[1:])))
    # build_only rules of the endpoint (URL generation only, e.g. for files a front server delivers): they are not matched and
    # provide no defaults, with or without defaults of their own; no alias in such a group (the alias redirect is a build
    # and may legitimately settle on a build_only rule)
    bo_group = rng.random() < 0.3
    if bo_group:
        head = (Seg(lit="bo" + tag), *[s_ for s_ in mid if s_.lit is None])
        bo = replace(b, segs=head, branch=rng.random() < 0.5, defaults=(("page", dv),), build_only=True, methods=None)
        if rng.random() < 0.5 and len(group) > 1:
            group.insert(1, bo)          # in front of the real provider
        else:
            group.append(bo)
        if rng.random() < 0.5:
            group.append(replace(b, segs=(Seg(lit="bo2" + tag),) + b.segs, build_only=True))
    if c > 0.5 and not bo_group:
        group.append(replace(b, segs=(Seg(lit="old" + tag),) + b.segs, alias=True))
        if rng.random() < 0.45:
            # an alias with MORE arguments than the canonical rule (its own extra default): Rule('/legacy/<int:id>',
            # defaults={'fmt': 'html'}, alias=True) next to Rule('/item/<int:id>') - the canonical rule still builds first
            group.append(replace(b, segs=(Seg(lit="leg" + tag),) + b.segs[1:], defaults=(("fmt", "html"),), alias=True))
    if rng.random() < 0.4 and not bo_group:
        # an alias that carries a default for the argument the canonical rule takes from the URL (more defaults than
        # the canonical rule): Rule('/users.html', defaults={'page': 1}, alias=True) next to Rule('/users/page/<int:page>')
        group.append(replace(b, segs=(Seg(lit="al" + tag + ".html"), *[s_ for s_ in mid if s_.lit is None]),
                             branch=False, defaults=(("page", dv),), alias=True))
    if rng.random() < 0.4:
        # same endpoint, other arguments: no defaults apply to it
        group.append(replace(b, segs=(Seg(lit=tag + "y"), Seg(conv=Conv("i"), name="other")), branch=rng.random() < 0.5))
    rules += group
    rng.shuffle(rules)
    rules = [replace(r, idx=i) for i, r in enumerate(rules)]
    return replace(ms, rules=tuple(rules), redirect_defaults=rng.random() < 0.85)


def with_subdomains(rng, ms: MapSpec) -> MapSpec:
    doms = [Seg(lit=""), Seg(lit="api"), Seg(conv=Conv("s"), name="sub"), Seg(lit="www")]
    rules = []
    for r in ms.rules:
        d = rng.choice(doms)
        if d.lit is None and any(s.lit is None and s.name == "sub" for s in r.segs):
            d = Seg(lit="api")
        rules.append(replace(r, dom=d))
    return replace(ms, rules=tuple(rules))


def provoke(rng, p: str) -> str:
    """turn a path that hits a rule into one that should be redirected (or nearly)."""
    c = rng.random()
    if c < 0.30:
        return p[:-1] if p.endswith("/") and len(p) > 1 else p + "/"
    if c < 0.55:
        idx = [i for i, ch in enumerate(p) if ch == "/"]
        i = rng.choice(idx) if idx else 0
        return p[:i] + "/" * rng.choice([2, 2, 2, 3, 4]) + p[i + 1:]
    if c < 0.75:
        return rng.choice(["//evil.com", "//evil.com/", "///evil.com//", "//example.com@evil.com/", "//", "///"]) + p.lstrip("/")
    if c < 0.85:
        q = p[:-1] if p.endswith("/") and len(p) > 1 else p
        idx = [i for i, ch in enumerate(q) if ch == "/"]
        i = rng.choice(idx) if idx else 0
        return q[:i] + "//" + q[i + 1:]
    if c < 0.92:
        return p + rng.choice(["%2f", "?x", "#f", " ", "é", "%", "//"])
    return p


def c12_paths(rng, ms: MapSpec, n: int) -> list[str]:
    out = []
    for _ in range(n):
        r = rng.choice(ms.rules)
        p = c03.path_for(rng, r)
        c = rng.random()
        if c < 0.25:
            out.append(p)
        elif c < 0.85:
            out.append(provoke(rng, p))
        else:
            out.append(c03.mutate_path(rng, provoke(rng, p)))
    return out


def corpus_c12():
    I5 = Conv("i", mx=5)
    S = Conv("s")
    out = []
    ad = Adapter()
    app = Adapter(scheme="https", script="/app", query="q=1")
    out.append((MapSpec((_r(0, D(I5, "a"), branch=True),)), ["/9", "/3", "/3/", "//3", "/3//"], ["GET"], ad))
    out.append((MapSpec((_r(0, D(I5, "a"), L("x")),)), ["/9//x", "/3//x", "/3/x"], ["GET"], app))
    out.append((MapSpec((_r(0, L("evil.com"), D(I5, "a"), branch=True),)), ["//evil.com/3", "///evil.com/3", "/evil.com//3"], ["GET"], app))
    out.append((MapSpec((_r(0, L("a"), branch=True), _r(1, L("a"), L("b"))), strict=False), ["/a///", "/a//", "/a//b", "/a/b//"], ["GET"], ad))
    # documented defaults idiom and an alias
    allr = RuleSpec(idx=0, endpoint=0, segs=(L("all"),), branch=True, defaults=(("page", 1),))
    page = RuleSpec(idx=1, endpoint=0, segs=(L("all"), L("page"), D(Conv("i"), "page")))
    old = RuleSpec(idx=2, endpoint=0, segs=(L("old"), D(Conv("i"), "page")), alias=True)
    out.append((MapSpec((allr, page, old)), ["/all/page/1", "/all/page/2", "/all", "/all/", "/old/1", "/old/2", "/all//page/1", "//all/page/1"],
                ["GET"], app))
    out.append((MapSpec((page, old, allr), redirect_defaults=False), ["/all/page/1", "/old/2"], ["GET"], ad))
    every = RuleSpec(idx=3, endpoint=0, segs=(L("every"),), branch=True, defaults=(("page", 1),))
    out.append((MapSpec((allr, every, page)), ["/every/", "/all/", "/every", "/all/page/1"], ["GET"], ad))
    out.append((MapSpec((every, page, allr)), ["/every/", "/all/", "/all/page/1"], ["GET"], app))
    pageb = replace(page, branch=True)
    out.append((MapSpec((allr, pageb)), ["/all/page/1", "/all/page/1/", "/all/page//1"], ["GET"], Adapter(script="/app/", query=(("a", "b c"),))))
    # per-rule slash settings sharing a prefix
    out.append((MapSpec((replace(_r(0, L("a"), branch=True), strict=False), replace(_r(1, L("a"), L("b"), branch=True), merge=False))),
                ["/a", "/a//", "/a/b", "/a//b", "/a//b/", "/a/b//"], ["GET"], ad))
    out.append((MapSpec((replace(_r(0, D(S, "x"), tail="p", branch=True), strict=None), _r(1, D(S, "x"), tail="p"))),
                ["/a/b", "/a/b/", "/a//b", "/a/b//"], ["GET"], ad))
    out.append((MapSpec((replace(_r(0, L("a"), branch=True), dom=Seg(lit="api")), _r(1, L("a")))), ["/a", "/a/"], ["GET"],
                Adapter(subdomain="api", scheme="wss")))
    return out


def follow(chk, m, by_obj, ms: MapSpec, ad: Adapter, url: str, meth: str, hops: int = 4):
    """follow router redirects as a client + server would: returns (list of urls, final observation)."""
    seen = [url]
    cur = ad
    for _ in range(hops):
        sp = urlsplit(seen[-1])
        root = cur.script if cur.script.endswith("/") else cur.script + "/"
        root_path = "/" + root.strip("/") + ("/" if root.strip("/") else "")
        if not sp.path.startswith(root_path):
            return seen, "OFFROOT"
        path_info = "/" + unquote(sp.path[len(root_path):])
        # the adapter the next request would be bound with: same server, the subdomain of the target host
        host = sp.netloc
        if not ms.host_matching:
            if host == cur.server:
                nxt = replace(cur, subdomain="")
            elif host.endswith("." + cur.server):
                nxt = replace(cur, subdomain=host[: -len(cur.server) - 1])
            else:
                return seen, "OFFHOST"
        else:
            nxt = replace(cur, server=host)
        obs = run_impl(m, nxt, by_obj, path_info, meth)
        if not obs.startswith("R "):
            return seen, obs
        seen.append(uncps(obs[2:]))
        cur = nxt
    return seen, "LOOP"


def judge_c12(chk, m, by_obj, ms: MapSpec, oracles, ad: Adapter, path: str, meth: str, impl: str):
    """the property: a router-issued redirect is on the bound host / scheme / script root, keeps the query string,
    and following it ends (<= 3 hops) in a match of the endpoint and arguments the original path denotes."""
    if not impl.startswith("R "):
        return c03.judge(ms, oracles, ad, path, meth, impl)
    if ad.mismatch:
        # a misconfigured server_name: the adapter is bound to "<invalid>".other-name; what it redirects to is compared with
        # the model (correspondence), the host is by construction not the one the client used
        chk.count("redirect:server-name-mismatch")
        return None
    url = uncps(impl[2:])
    pp = "/" + path.lstrip("/") if path else ""
    ws = ad.eff_scheme() in ("ws", "wss")
    allowed, _ = oracle_outcomes(ms, oracles, domain_part(ms, ad), pp, meth.upper(), ws)
    denote = set()
    from_builder = False
    for a in allowed:
        if a[0] == "RP" and expected_url(ad, ms, a[1]) == url:
            denote.add((_rule_by_idx(ms, a[2]).endpoint, a[3]))
    if not denote:
        if _has_builder(ms) and ms.redirect_defaults and any(a[0] == "M" for a in allowed):
            from_builder = True
            denote = {(_rule_by_idx(ms, a[1]).endpoint, a[2]) for a in allowed if a[0] == "M"}
        else:
            bad = c03.judge(ms, oracles, ad, path, meth, impl)
            return bad or ("redirect-unjustified", f"redirect to {url!r} not explained by the property")
    # --- on host
    sp = urlsplit(url)
    q = ad.query_str()
    scheme = ad.eff_scheme() or "http"
    if from_builder:
        # a defaults redirect is make_redirect_url (the adapter's scheme); an alias redirect is MapAdapter.build(force_external=True):
        # ws / wss for a websocket rule, http / https for any other rule - of the security the adapter is bound with, never a downgrade
        secure = scheme in ("https", "wss")
        eps = {e for e, _ in denote}
        ok_schemes = {scheme}
        for r in ms.rules:
            if r.endpoint in eps:
                ok_schemes.add(("wss" if secure else "ws") if r.websocket else ("https" if secure else "http"))
        if urlsplit(url).scheme not in ok_schemes:
            return "redirect-off-scheme", f"builder redirect to {url!r}: scheme is not one of {sorted(ok_schemes)} (adapter bound with {scheme})"
        scheme = urlsplit(url).scheme
    root = "/" + ad.script.strip("/") + ("/" if ad.script.strip("/") else "")
    hosts = {expected_host(ad, ms, None)}
    if from_builder:
        hosts |= {expected_host(ad, ms, d) for d in builder_domains(ms, ad)}
    if sp.scheme != scheme or sp.netloc not in hosts:
        return "redirect-off-host", f"redirect to {url!r}: scheme/host are not the bound {scheme}://{sorted(hosts)}"
    if not sp.path.startswith(root) or sp.path[len(root):].startswith("/"):
        return "redirect-off-root", f"redirect to {url!r}: path does not stay under the script root {root!r}"
    if "#" not in q and (sp.query != q or sp.fragment):
        return "redirect-query", f"redirect to {url!r}: query string {sp.query!r} is not the bound {q!r}"
    if "#" in q and not url.endswith("?" + q):
        return "redirect-query", f"redirect to {url!r} does not end with the bound query {q!r}"
    # --- converges
    if "#" in q:
        return None
    chain, final = follow(chk, m, by_obj, ms, ad, url, meth)
    chk.count(f"hops:{len(chain)}")
    if final in ("LOOP", "OFFHOST", "OFFROOT"):
        return "redirect-loop" if final == "LOOP" else "redirect-off-host", f"following {chain!r} ends in {final}"
    if not final.startswith("M "):
        return "redirect-target-not-matching", f"{path!r} is redirected to {chain!r}, which answers {final}"
    _, idx, ep, args = final.split(" ")
    # an alias rule's own defaults (arguments the canonical rule does not have) do not survive the canonicalisation
    fr = _rule_by_idx(ms, int(idx))
    final_args = {n for n, _ in fr.convs()} | {k for k, _ in fr.defaults}
    alias_keys = {cps(k) for r in ms.rules if r.alias for k, _ in r.defaults if k not in final_args}

    def without_alias_defaults(a: str) -> str:
        kept = [kv for kv in a.split("|") if kv.split("=")[0] not in alias_keys]
        return "|".join(kept) if kept else "-"
    if (int(ep), args) not in denote and (int(ep), args) not in {(e, without_alias_defaults(a)) for e, a in denote}:
        return "redirect-changes-request", f"{path!r} -> {chain!r} matches endpoint e{ep} {args}, the original path denotes {sorted(map(repr, denote))}"
    if len(chain) > 3:
        return "redirect-too-many-hops", f"{chain!r}"
    return None


def e2e_query_preserved(m, ms: MapSpec, ad: Adapter, path: str, meth: str):
    """end to end through a WSGI application and the test client: after following the router's redirects the
    application must see the query arguments of the original request.  None, or (key, what)."""
    from werkzeug.routing import RequestRedirect
    from werkzeug.test import Client
    from werkzeug.wrappers import Request, Response
    from werkzeug.exceptions import HTTPException

    @Request.application
    def app(request):
        a = m.bind_to_environ(request.environ, server_name=ad.server if ad.subdomain is not None else None)
        try:
            a.match()
        except RequestRedirect as e:
            return e
        except HTTPException as e:
            return e
        return Response(repr(sorted(request.args.items(multi=True))))
    env0 = ad.make_environ(path, meth)
    want = repr(sorted(Request(env0).args.items(multi=True)))
    c = Client(app)
    c.allow_subdomain_redirects = True
    host = (ad.subdomain + "." if ad.subdomain else "") + ad.server + ad.host_suffix
    try:
        resp = c.open(path=path, base_url=f"{ad.scheme}://{host}{ad.script.rstrip('/')}/", query_string=ad.query_str(), method=meth,
                      follow_redirects=True)
    except Exception as e:  # noqa: BLE001
        return "e2e-exception", f"client following the redirect raised {type(e).__name__}: {e}"
    if resp.status_code == 200 and meth != "HEAD":
        got = resp.get_data(as_text=True)
        if got != want:
            return "redirect-query", f"after following {[h.headers.get('Location') for h in resp.history]!r} the application sees {got}, the request had {want}"
    return None


def _has_builder(ms: MapSpec) -> bool:
    return any(r.defaults or r.alias for r in ms.rules)


def _rule_by_idx(ms: MapSpec, idx: int) -> RuleSpec:
    for r in ms.rules:
        if r.idx == idx:
            return r
    raise KeyError(idx)


def expected_host(ad: Adapter, ms: MapSpec, domain):
    if ms.host_matching:
        return ad.server if domain is None else domain
    sub = (ad.eff_subdomain() or "") if domain is None else domain
    return f"{sub}.{ad.server}" if sub else ad.server


def builder_domains(ms: MapSpec, ad: Adapter):
    """domain parts a defaults/alias redirect may legitimately name: the static domains of the map's rules and the
    request's own domain part (a variable subdomain is filled from the matched values)."""
    out = {domain_part(ms, ad)}
    for r in ms.rules:
        if r.dom.lit is not None:
            out.add(r.dom.lit)
    return out


def run(chk: Check) -> None:
    rng = chk.rng
    quick = chk.tier == "quick"
    lines, expect, meta = [], [], []
    cases = list(c03.load_corpus("C12"))
    n_plain = 600 if quick else 8500
    n_build = 460 if quick else 6500
    n_sub = 230 if quick else 3400
    for _ in range(n_plain):
        ms = gen_map(rng, nmax=4, per_rule=True)
        cases.append((ms, c12_paths(rng, ms, 7), [rng.choice(["GET", "GET", "GET", "POST", "HEAD"])], gen_adapter(rng, ms)))
    for _ in range(n_build):
        ms = with_defaults(rng, gen_map(rng, nmax=3, per_rule=rng.random() < 0.5))
        cases.append((ms, c12_paths(rng, ms, 8), [rng.choice(["GET", "GET", "POST"])], gen_adapter(rng, ms)))
    for _ in range(n_sub):
        ms = with_subdomains(rng, gen_map(rng, nmax=4, per_rule=rng.random() < 0.5))
        if rng.random() < 0.4:
            ms = with_defaults(rng, ms)
        cases.append((ms, c12_paths(rng, ms, 7), ["GET"], gen_adapter(rng, ms)))
    nred = 0
    for ms, paths, meths, ad in cases:
        ms = replace(ms, rules=tuple(replace(r, idx=i) for i, r in enumerate(ms.rules)))
        oracles = [RuleOracle(r, ms) for r in ms.rules if not r.build_only]      # a build_only rule is never matched
        n = len(ms.rules)
        perms = [tuple(range(n))]
        if n <= 3 and not _has_builder(ms):
            perms = list(itertools.permutations(range(n)))
        for perm in perms:
            msp = replace(ms, rules=tuple(ms.rules[i] for i in perm))
            try:
                m, by_obj = msp.make()
            except Exception as e:  # noqa: BLE001
                chk.fail("map-construction", f"Map construction raised {type(e).__name__}: {e}", {"map": msp.describe()})
                continue
            for path in paths:
                for meth in meths:
                    impl = run_impl(m, ad, by_obj, path, meth)
                    kind = impl.split(" ")[0]
                    chk.count(f"outcome:{kind}")
                    bad = judge_c12(chk, m, by_obj, ms, oracles, ad, path, meth, impl)
                    if kind == "R" and ad.environ and not ad.mismatch and not ad.upgrade and not bad and not path.startswith("//") and path.startswith("/") \
                            and "?" not in path and "#" not in path and "\n" not in path:
                        bad = e2e_query_preserved(m, ms, ad, path, meth)
                        chk.count("redirect:followed-through-client")
                    if kind == "R":
                        nred += 1
                        chk.count("redirect:" + ("builder" if _has_builder(ms) else "path"))
                    if bad:
                        chk.fail(bad[0], bad[1], {"map": msp.describe(), "adapter": {"scheme": ad.scheme, "server": ad.server, "script": ad.script,
                                                                                      "subdomain": ad.subdomain, "query": ad.query},
                                                  "path": path, "method": meth,
                                                  "observed": impl if kind != "R" else "R " + uncps(impl[2:])})
                    chk.case(("c12", msp.cfg(), msp.enc(), ad.enc(), path, meth), nontrivial=kind == "R" or (kind != "404" and len(path) > 1),
                             sample={"rules": [r.string() for r in msp.rules], "path": path, "adapter": ad.enc()[:40],
                                     "impl": impl[:60] if kind != "R" else "R " + uncps(impl[2:])[:60]} if kind == "R" else None)
                    bo = [str(r.idx) for r in msp.rules if r.build_only]
                    if bo:
                        chk.count("map:build_only")
                        lines.append(f"matchbo {msp.cfg()} {msp.enc()} {ad.enc()} {cps(meth)} {cps(path)} {'|'.join(bo)}")
                    else:
                        lines.append(f"match {msp.cfg()} {msp.enc()} {ad.enc()} {cps(meth)} {cps(path)}")
                    expect.append(impl)
                    meta.append(("match", msp, path, meth, ad))
    chk.count("redirects", nred)
    same_rule_campaign(chk, 260 if quick else 4000)
    redirect_to_campaign(chk, 140 if quick else 2200, lines, expect, meta)
    c03.compare_model(chk, "C12", lines, expect, meta)


RT_PIECES = ["new", "x/", "a b", "é", "?q=1", "#f", "<>", "<", "a>b", "-", "v.", "/y", "a,b;c"]


def redirect_to_campaign(chk, n_maps: int, lines, expect, meta) -> None:
    """Rule.redirect_to string templates: the implementation against router_match_rt of the model (substitution of the
    variables through their converters' to_url, joined to scheme://host/script-root/)."""
    rng = chk.rng
    for _ in range(n_maps):
        ms = gen_map(rng, nmax=3, per_rule=rng.random() < 0.5)
        if rng.random() < 0.4:
            ms = with_defaults(rng, ms)
        ms = replace(ms, rules=tuple(replace(r, idx=i) for i, r in enumerate(r for r in ms.rules if not r.build_only)))
        ad = replace(gen_adapter(rng, ms), environ=False, mismatch=False, host_suffix="", upgrade=False)
        if isinstance(ad.query, tuple) or ad.query is None or isinstance(ad.query, str):
            pass
        try:
            m, by_obj = ms.make()
        except Exception:  # noqa: BLE001
            continue
        rt = {}
        for obj, r in zip(m._verif_objs, ms.rules):
            if rng.random() < 0.6:
                names = [n for n, _ in r.convs()]
                parts = ["new/" if rng.random() < 0.7 else rng.choice(RT_PIECES)]
                for _k in range(rng.randint(0, 3)):
                    parts.append("<" + rng.choice(names) + ">" if names and rng.random() < 0.6 else rng.choice(RT_PIECES))
                tpl = "".join(parts)
                obj.redirect_to = tpl
                rt[r.idx] = tpl
        if not rt:
            continue
        enc_rt = "|".join(f"{i}={cps(t)}" for i, t in rt.items())
        root = f"{ad.scheme or 'http'}://"
        for path in c12_paths(rng, ms, 6):
            impl = run_impl(m, ad, by_obj, path, "GET")
            chk.count("redirect_to:" + impl.split(" ")[0])
            if impl.startswith("R ") and not uncps(impl[2:]).startswith(root) and "://" not in "".join(rt.values()):
                chk.fail("redirect-to-off-scheme", f"redirect_to target {uncps(impl[2:])!r} does not start with {root!r}",
                         {"map": ms.describe(), "path": path, "method": "GET", "redirect_to": rt})
            chk.case(("redirect_to", ms.cfg(), ms.enc(), ad.enc(), path, enc_rt), nontrivial=impl.startswith("R "))
            lines.append(f"matchrt {ms.cfg()} {ms.enc()} {ad.enc()} {cps('GET')} {cps(path)} {enc_rt}")
            expect.append(impl)
            meta.append(("match", ms, path, "GET", ad))


TAIL_POOL = ["/<path:p>", "/<path:p>/", "/a/<path:p>", "/a/<path:p>/", "/a", "/a/", "/<s>", "/<s>/", "/a/<s>/", "/<int:i>/",
             "/<s>/<path:p>/", "/<s>/<path:p>", "/a/b/", "/<s>/b/", "/<int:i>/<path:p>/", "/a/<int:i>/<path:p>"]


def same_rule_campaign(chk, n_maps: int) -> None:
    """C12_converges for rules with a trailing path converter (the case the Coq theorem leaves out), checked on the
    implementation: the rule and captured texts at the moment StateMachineMatcher._match raises SlashRequired are read
    off the interpreter (sys.settrace), and the request for the redirect target must be answered by that very rule
    with the converted texts."""
    import sys
    from urllib.parse import unquote as _unq
    from werkzeug.exceptions import HTTPException
    from werkzeug.routing import Map, RequestRedirect, Rule
    from werkzeug.routing.matcher import SlashRequired
    rng = chk.rng
    cause = []

    def tracer(frame, event, arg):
        if frame.f_code.co_name != "_match":
            return None

        def local(frame, event, arg):
            if event == "exception" and arg[0] is SlashRequired and "rule" in frame.f_locals and not cause:
                cause.append((frame.f_locals["rule"], list(frame.f_locals["values"])))
            return local
        return local
    segs = ["a", "b", "1", "", "a b", "é"]
    for _ in range(n_maps):
        rs = rng.sample(TAIL_POOL, rng.randint(1, 4))
        kws = [dict(strict_slashes=rng.choice([None, None, False, True]), merge_slashes=rng.choice([None, None, False])) for _r in rs]
        mkw = dict(strict_slashes=rng.random() < 0.8, merge_slashes=rng.random() < 0.7)
        m = Map([Rule(r, endpoint=f"e{i}", **kw) for i, (r, kw) in enumerate(zip(rs, kws))], **mkw)
        a = m.bind("example.com")
        for _p in range(24):
            p = "/" + "/".join(rng.choice(segs) for _k in range(rng.randint(1, 4)))
            cause.clear()
            sys.settrace(tracer)
            try:
                a.match(p)
                continue
            except RequestRedirect as e:
                url = e.new_url
            except HTTPException:
                continue
            finally:
                sys.settrace(None)
            chk.count("same-rule:redirects")
            info = {"map": {"rules": [dict(rule=r, endpoint=f"e{i}", methods=None, **kw) for i, (r, kw) in enumerate(zip(rs, kws))],
                            "redirect_defaults": True, "host_matching": False, **mkw},
                    "adapter": {"server": "example.com"}, "path": p, "method": "GET", "observed": "R " + url}
            p2 = _unq(url[len("http://example.com"):])
            try:
                r2, v2 = a.match(p2, return_rule=True)
            except RequestRedirect as e:
                chk.fail("redirect-not-converged", f"{p!r} -> {p2!r} is redirected again to {e.new_url!r}", info)
                continue
            except HTTPException as e:
                chk.fail("redirect-target-unmatched", f"{p!r} -> {p2!r} answers {type(e).__name__}", info)
                continue
            chk.case(("same-rule", tuple(rs), repr(kws), repr(mkw), p), nontrivial=True)
            if cause:
                r1, caps = cause[0]
                conv = {str(name): r1._converters[name].to_python(value) for name, value in zip(r1._converters.keys(), caps)}
                chk.count("same-rule:slash" + (":path-tail" if "<path:" in r1.rule else ""))
                if r2 is not r1 or dict(v2) != conv:
                    chk.fail("redirect-other-rule", f"{p!r} -> {p2!r}: the redirect was caused by {r1.rule!r} with {conv!r}, "
                                                    f"the target is answered by {r2.rule!r} with {dict(v2)!r}", info)


def main(chk: Check) -> None:
    try:
        c03.write_gen("C12")
    except px.Unsupported as e:
        chk.broken("translator", "C03/Gen.v", str(e))
    chk.forbidden_scan()
    if chk.coq_make(["C12/Proofs.vo", "C12/ConvergeProofs.vo", "C12/CanonProofs.vo", "C12/Extract.vo"]):
        chk.audit_props("C12/Props.v")
    else:
        chk.cov["obligations"] += 1
    chk.trusted += [
        "everything listed for C03 (the statement pins tools/pins/c03_*.txt cover Map.bind / bind_to_environ, MapAdapter.match / build / get_default_redirect / make_redirect_url / make_alias_redirect_url / encode_query_args; translator tools/c03.py, extraction + coq/C03/driver.ml, converter language predicates, sort stability)",
        "urllib.parse.urlunsplit, quote and str.encode('utf-8') hand-modelled (validated differentially); urllib.parse.uses_netloc tabulated from the interpreter",
        "the bound query string is an input of the model; for query_args given as a mapping / MultiDict / list of pairs the harness computes it as the "
        "urlencode of ALL items (iter_multi_items order, None dropped) from the pass-through table of coq/C02/Gen.v (the C02 model), not with werkzeug",
    ]
    run(chk)
    chk.finish(rule="maps from the C03 grammar with per-map and per-rule strict_slashes / merge_slashes, defaults + alias rules (documented idiom), "
                    "static and variable subdomains; adapters over http/https/ws/wss, script roots '/', '/app', '/app/', '/a/b', '', ports, "
                    "string and mapping query arguments; paths as C03 plus '//host/..' prefixes, doubled slashes anywhere, non-ASCII, '%', '?', '#'. "
                    "Every redirect is checked for scheme/host/script root/query and followed (<= 4 hops) to a match of the denoted endpoint and arguments.")


def replay(rep: dict) -> int:
    return c03.replay(rep)
