"""C11  Conditional and range responses are sound."""
from __future__ import annotations

import ast
import io
import os
import re

from . import pyextract as px
from .vlib import COQ, Check, cps, hexs, with_timeout, ImplTimeout

PID = "C11"
CLAIM = dict(
    text="Coq theorems over an executable model of werkzeug's conditional / range response code: the validator decision "
         "(is_resource_modified, is_byte_range_valid, Range.range_for_length, the processable / range guards, and the arithmetic of "
         "_RangeWrapper and parse_range_header under pinned statement skeletons, are regenerated "
         "from the source text on every run and the 304 / 412 / 416 / 200 theorems are re-proved against them), the 206 slice "
         "theorem for _RangeWrapper over every chunking in both wrapper modes, Content-Range / Content-Length agreement, and the "
         "Range and ETag header grammars. Tied to the code by the translator and by differential execution (extracted OCaml "
         "model vs Response.make_conditional / send_file through a real WSGI environ).",
    note="Trusted: Coq kernel; translator tools/c11.py (atom tables); ExtrOcamlBasic extraction + driver; hand-written matchers "
         "for _etag_re / _plain_int_re (texts pinned, validated differentially, header text without LF); email.utils date "
         "parsing and datetime arithmetic are a Section variable / harness-side input (instants in microseconds); seekable "
         "bodies are modelled as werkzeug.wsgi.FileWrapper over a byte string.",
    design="6/C11")


# ====================================================================== T2 translator
# Python statement subset -> Gallina term in the exception monad of coq/C11/Base.v.
# Everything not recognised raises px.Unsupported.

COQ_KEYWORDS = {"end", "in", "let", "match", "with", "fun", "if", "then", "else", "at", "as", "return", "fix", "type"}

OPTION_TYPES = {"int", "ostr", "odate", "lm", "oifr", "orange", "opair"}
TRUTHY = {"int": "truthy_int", "ostr": "str_truthy", "etags": "etags_truthy", "odate": "is_some", "oifr": "is_some",
          "lm": "lm_truthy", "accept": "accept_truthy"}


def cname(n: str) -> str:
    return n + "_" if n in COQ_KEYWORDS else n


def norm(node: ast.AST) -> str:
    return ast.unparse(node)


class T2:
    def __init__(self, where: str, var_types: dict, atoms: dict | None = None, funcs: dict | None = None,
                 methods: dict | None = None, ret: str = "bool", params: list | None = None,
                 attrs: dict | None = None, cmps: dict | None = None, patterns: list | None = None):
        self.where = where
        # rules keyed on types, not on variable names (so that renamed locals translate the same):
        self.attrs = attrs or {}          # (type, attribute) -> (function of the value, result type)
        self.cmps = cmps or {}            # (op class name, left type, right type) -> function of both values
        self.patterns = patterns or []    # (matcher(node) -> operand node | None, operand type, function, result type, pure)
        self.var_types = dict(var_types)
        self.atoms = atoms or {}
        self.funcs = funcs or {}
        self.methods = methods or {}
        self.ret = ret
        self.n = 0
        self.used_atoms: set[str] = set()
        self.defined: set[str] = set(params if params is not None else var_types)

    def fresh(self, p="c"):
        self.n += 1
        return f"{p}{self.n}"

    def bad(self, what, node=None):
        txt = f" `{norm(node)}`" if node is not None else ""
        raise px.Unsupported(f"{self.where}: {what}{txt}")

    # ---------------------------------------------------------------- expressions
    def E(self, node) -> tuple[str, str]:
        key = norm(node)
        if key in self.atoms:
            self.used_atoms.add(key)
            return self.atoms[key]
        for matcher, want, fn, rt, pure in self.patterns:
            sub = matcher(node)
            if sub is not None:
                return self.call(fn, [want], rt, pure, [sub], node), rt
        if isinstance(node, ast.Attribute) and not (isinstance(node.value, ast.Name) and node.value.id == "self"):
            try:
                t, ty = self.E(node.value)
            except px.Unsupported:
                ty = None
            if (ty, node.attr) in self.attrs:
                fn, rt = self.attrs[(ty, node.attr)]
                return self.call(fn, [ty], rt, False, [node.value], node), rt
        if isinstance(node, ast.Constant):
            v = node.value
            if v is True:
                return "Ok true", "bool"
            if v is False:
                return "Ok false", "bool"
            if v is None:
                return "Ok None", "none"
            if isinstance(v, int):
                return f"Ok (Some ({v})%Z)", "int"
            self.bad("constant", node)
        if isinstance(node, ast.UnaryOp) and isinstance(node.op, ast.USub) and isinstance(node.operand, ast.Constant) \
                and isinstance(node.operand.value, int):
            return f"Ok (Some (-{node.operand.value})%Z)", "int"
        if isinstance(node, ast.Name):
            if node.id not in self.var_types:
                self.bad("unknown name", node)
            if node.id not in self.defined:
                self.bad("name read before a definition that reaches every path", node)
            return f"Ok {cname(node.id)}", self.var_types[node.id]
        if isinstance(node, ast.UnaryOp) and isinstance(node.op, ast.Not):
            return f"not_ ({self.B(node.operand)})", "bool"
        if isinstance(node, ast.BoolOp):
            op = "and_" if isinstance(node.op, ast.And) else "or_"
            terms = [self.B(v) for v in node.values]
            out = terms[-1]
            for t in reversed(terms[:-1]):
                out = f"{op} ({t}) ({out})"
            return out, "bool"
        if isinstance(node, ast.Compare):
            operands = [node.left] + list(node.comparators)
            parts = []
            for a, op, b in zip(operands, node.ops, operands[1:]):
                parts.append(self.cmp(a, op, b, node))
            out = parts[-1]
            for t in reversed(parts[:-1]):
                out = f"and_ ({t}) ({out})"
            return out, "bool"
        if isinstance(node, ast.Tuple):
            if len(node.elts) != 2:
                self.bad("tuple arity", node)
            (a, ta), (b, tb) = self.E(node.elts[0]), self.E(node.elts[1])
            return f"pair_ ({a}) ({b})", f"pair({ta},{tb})"
        if isinstance(node, ast.IfExp):
            c = self.fresh()
            (a, ta), (b, tb) = self.E(node.body), self.E(node.orelse)
            if ta != tb and "none" not in (ta, tb):
                self.bad("conditional expression with different types", node)
            return f"({c} <- {self.B(node.test)} ;; if {c} then {a} else {b})", (tb if ta == "none" else ta)
        if isinstance(node, ast.Call):
            if node.keywords:
                self.bad("keyword arguments", node)
            fkey = norm(node.func)
            if fkey == "min" and len(node.args) == 2:
                (a, ta), (b, tb) = self.E(node.args[0]), self.E(node.args[1])
                if ta != "int" or tb != "int":
                    self.bad("min of non-int", node)
                return f"min_ ({a}) ({b})", "int"
            if fkey in self.funcs:
                over = self.funcs[fkey]
                if isinstance(over, tuple):
                    over = [over]
                argtys = []
                for a in node.args:
                    argtys.append(self.E(a)[1])
                for fn, argt, rt, pure in over:
                    if len(argt) == len(argtys) and all(x == y or (x == "none" and y in OPTION_TYPES)
                                                        for x, y in zip(argtys, argt)):
                        return self.call(fn, argt, rt, pure, node.args, node), rt
                self.bad(f"no overload for argument types {argtys}", node)
            if isinstance(node.func, ast.Attribute) and node.func.attr in self.methods:
                fn, argt, rt, pure = self.methods[node.func.attr]
                return self.call(fn, argt, rt, pure, [node.func.value] + list(node.args), node), rt
            self.bad("unknown call", node)
        self.bad("expression", node)

    def lift1(self, f, t):
        m = re.fullmatch(r"Ok ([A-Za-z_][A-Za-z0-9_']*)", t)
        if m:
            return f"Ok ({f} {m.group(1)})"
        x = self.fresh("v")
        return f"({x} <- {t} ;; Ok ({f} {x}))"

    def call(self, fn, argt, rt, pure, args, node):
        if len(args) != len(argt):
            self.bad("arity changed", node)
        names, binds = [], ""
        for a, want in zip(args, argt):
            t, ty = self.E(a)
            if ty != want and not (ty == "none" and want in OPTION_TYPES):
                self.bad(f"argument type {ty}, expected {want}", a)
            m = re.fullmatch(r"Ok ([A-Za-z_][A-Za-z0-9_']*)", t)
            if m:
                names.append(m.group(1))
                continue
            x = self.fresh("a")
            names.append(x)
            binds += f"{x} <- {t} ;; "
        app = f"{fn} {' '.join(names)}"
        core = f"Ok ({app})" if pure else app
        return f"({binds}{core})" if binds or not pure else core

    def cmp(self, a, op, b, node):
        if isinstance(op, (ast.Is, ast.IsNot)):
            if not (isinstance(b, ast.Constant) and b.value is None):
                self.bad("identity test against something other than None", node)
            t, ty = self.E(a)
            if ty not in OPTION_TYPES:
                self.bad(f"`is None` on type {ty}", node)
            core = self.lift1("is_none", t)
            return core if isinstance(op, ast.Is) else f"not_ ({core})"
        (ta, tya), (tb, tyb) = self.E(a), self.E(b)
        if (type(op).__name__, tya, tyb) in self.cmps:
            return self.call(self.cmps[(type(op).__name__, tya, tyb)], [tya, tyb], "bool", False, [a, b], node)
        table = {ast.Lt: "lt_", ast.LtE: "le_", ast.Gt: "gt_", ast.GtE: "ge_"}
        if type(op) in table:
            if tya != "int" or tyb != "int":
                self.bad("ordering of non-int operands", node)
            return f"{table[type(op)]} ({ta}) ({tb})"
        if isinstance(op, (ast.Eq, ast.NotEq)):
            if tya == tyb == "int":
                f = "eq_" if isinstance(op, ast.Eq) else "ne_"
            elif tya == tyb == "bool":
                f = "beq_" if isinstance(op, ast.Eq) else "bne_"
            elif tya == tyb == "ostr":
                f = "seq_" if isinstance(op, ast.Eq) else "sne_"
            else:
                self.bad("equality on unsupported types", node)
            return f"{f} ({ta}) ({tb})"
        self.bad("comparison operator", node)

    def B(self, node) -> str:
        t, ty = self.E(node)
        if ty == "bool":
            return t
        if ty in TRUTHY:
            return self.lift1(TRUTHY[ty], t)
        self.bad(f"truth value of type {ty}", node)

    def infer_locals(self, stmts) -> None:
        """types of the local variables from what is assigned to them, whatever they are called"""
        params = set(self.var_types)
        saved_defined, saved_n = set(self.defined), self.n
        nodes = [n for st in stmts for n in ast.walk(st) if isinstance(n, (ast.Assign, ast.AnnAssign, ast.AugAssign))]
        names: set[str] = set()
        for _ in range(6):
            for n in nodes:
                target = n.targets[0] if isinstance(n, ast.Assign) else n.target
                value = n.value
                if value is None:
                    continue
                self.defined = set(self.var_types) | names
                try:
                    ty = "int" if isinstance(n, ast.AugAssign) else self.E(value)[1]
                except px.Unsupported:
                    continue
                pairs = []
                if isinstance(target, ast.Name):
                    pairs = [(target.id, ty)]
                elif isinstance(target, ast.Tuple):
                    m = re.fullmatch(r"pair\((\w+),(\w+)\)", ty)
                    if m and len(target.elts) == 2 and all(isinstance(e, ast.Name) for e in target.elts):
                        pairs = [(e.id, t1) for e, t1 in zip(target.elts, m.groups())]
                for name, t1 in pairs:
                    if name == "_" or name in params:
                        continue
                    names.add(name)
                    if t1 == "none":
                        continue
                    if self.var_types.get(name, t1) != t1:
                        self.bad(f"local {name} is assigned values of types {self.var_types[name]} and {t1}")
                    self.var_types[name] = t1
        for n in nodes:
            target = n.targets[0] if isinstance(n, ast.Assign) else n.target
            for e in ([target] if isinstance(target, ast.Name) else getattr(target, "elts", [])):
                if isinstance(e, ast.Name) and e.id != "_" and e.id not in self.var_types:
                    self.bad(f"type of local {e.id} cannot be inferred")
        self.defined, self.n = saved_defined, saved_n
        self.used_atoms = set()

    # ---------------------------------------------------------------- statements
    @staticmethod
    def always_returns(stmts) -> bool:
        if not stmts:
            return False
        st = stmts[-1]
        if isinstance(st, (ast.Return, ast.Raise)):
            return True
        if isinstance(st, ast.If):
            return T2.always_returns(st.body) and T2.always_returns(st.orelse)
        return False

    def assigned(self, stmts) -> list[str]:
        out: list[str] = []

        def add(t):
            if isinstance(t, ast.Name):
                if t.id != "_" and t.id not in out:
                    out.append(t.id)
            elif isinstance(t, ast.Tuple):
                for e in t.elts:
                    add(e)
            else:
                self.bad("assignment target", t)
        for st in stmts:
            if isinstance(st, ast.Assign):
                for t in st.targets:
                    add(t)
            elif isinstance(st, (ast.AugAssign, ast.AnnAssign)):
                add(st.target)
            elif isinstance(st, ast.If):
                for n in self.assigned(st.body) + self.assigned(st.orelse):
                    if n not in out:
                        out.append(n)
            elif isinstance(st, (ast.Return, ast.Raise)):
                self.bad("return inside a block that also falls through", st)
            elif isinstance(st, ast.Expr) and isinstance(st.value, ast.Constant):
                pass
            else:
                self.bad("statement", st)
        return out

    def definite(self, stmts) -> set:
        """names assigned on every path through a fall-through block"""
        out: set = set()
        for st in stmts:
            if isinstance(st, ast.If):
                out |= self.definite(st.body) & self.definite(st.orelse)
            elif isinstance(st, (ast.Assign, ast.AugAssign, ast.AnnAssign)):
                out |= set(self.assigned([st]))
        return out

    def ret_value(self, node) -> str:
        if self.ret == "bool":
            if node is None:
                self.bad("bare return in a bool function")
            t, ty = self.E(node)
            if ty != "bool":
                self.bad(f"return of type {ty} in a bool function", node)
            return t
        if self.ret == "opt_pair":
            if node is None or (isinstance(node, ast.Constant) and node.value is None):
                return "Ok None"
            t, ty = self.E(node)
            if ty != "pair(int,int)":
                self.bad(f"return of type {ty}", node)
            return f"some_ ({t})"
        self.bad("return convention")

    def bind_target(self, target, ty, node) -> str:
        if isinstance(target, ast.Name):
            want = self.var_types.get(target.id)
            if want is None:
                self.bad("assignment to an undeclared local", node)
            if ty != want and not (ty == "none" and want in OPTION_TYPES):
                self.bad(f"assignment of type {ty} to {target.id}:{want}", node)
            self.defined.add(target.id)
            return cname(target.id)
        if isinstance(target, ast.Tuple) and len(target.elts) == 2 and all(isinstance(e, ast.Name) for e in target.elts):
            m = re.fullmatch(r"pair\((\w+),(\w+)\)", ty)
            if not m:
                self.bad(f"unpacking a value of type {ty}", node)
            names = []
            for e, t1 in zip(target.elts, m.groups()):
                if e.id == "_":
                    names.append("_")
                    continue
                if self.var_types.get(e.id) != t1:
                    self.bad(f"unpacking type {t1} into {e.id}:{self.var_types.get(e.id)}", node)
                self.defined.add(e.id)
                names.append(cname(e.id))
            return f"'({names[0]}, {names[1]})"
        self.bad("assignment target", node)

    def S(self, stmts, fin, ind="  ") -> str:
        if not stmts:
            if fin is None:
                self.bad("control reaches the end of the function without a return")
            return fin
        st, rest = stmts[0], stmts[1:]
        if isinstance(st, ast.Expr) and isinstance(st.value, ast.Constant) and isinstance(st.value.value, str):
            return self.S(rest, fin, ind)
        if isinstance(st, ast.Return):
            if rest:
                self.bad("statements after return", rest[0])
            return self.ret_value(st.value)
        if isinstance(st, ast.Raise):
            if rest:
                self.bad("statements after raise", rest[0])
            name = norm(st.exc.func) if isinstance(st.exc, ast.Call) else norm(st.exc)
            if name not in ("TypeError", "ValueError"):
                self.bad("raise of an unmodelled exception", st)
            return f"Raise {name}"
        if isinstance(st, (ast.Assign, ast.AnnAssign)):
            if isinstance(st, ast.Assign):
                if len(st.targets) != 1:
                    self.bad("chained assignment", st)
                target = st.targets[0]
            else:
                target = st.target
                if st.value is None:
                    self.bad("annotation without value", st)
            t, ty = self.E(st.value)
            pat = self.bind_target(target, ty, st)
            return f"{pat} <- {t} ;;\n{ind}{self.S(rest, fin, ind)}"
        if isinstance(st, ast.AugAssign):
            if not (isinstance(st.op, ast.Add) and isinstance(st.target, ast.Name) and self.var_types.get(st.target.id) == "int"):
                self.bad("augmented assignment", st)
            t, ty = self.E(st.value)
            if ty != "int":
                self.bad("+= of a non-int", st)
            x = cname(st.target.id)
            return f"{x} <- add_ (Ok {x}) ({t}) ;;\n{ind}{self.S(rest, fin, ind)}"
        if isinstance(st, ast.If):
            c = self.fresh()
            test = self.B(st.test)
            before = set(self.defined)
            if self.always_returns(st.body):
                a = self.S(st.body, None, ind + "  ")
                self.defined = set(before)
                b = self.S(list(st.orelse) + list(rest), fin, ind + "  ")
                return f"{c} <- {test} ;;\n{ind}if {c} then\n{ind}  {a}\n{ind}else\n{ind}  {b}"
            if st.orelse and self.always_returns(st.orelse):
                b = self.S(st.orelse, None, ind + "  ")
                self.defined = set(before)
                a = self.S(list(st.body) + list(rest), fin, ind + "  ")
                return f"{c} <- {test} ;;\n{ind}if {c} then\n{ind}  {a}\n{ind}else\n{ind}  {b}"
            # both branches fall through: the variables defined before the statement and assigned in it are
            # joined; a variable first assigned inside is local to its branch
            both = self.definite(st.body) & self.definite(st.orelse)
            vs = [v for v in self.assigned(list(st.body) + list(st.orelse)) if v in before or v in both]
            if not vs:
                self.bad("if statement without effect on the variables defined before it", st)
            tup = "(" + ", ".join(cname(v) for v in vs) + ")" if len(vs) > 1 else cname(vs[0])
            pat = ("'" + tup) if len(vs) > 1 else tup
            a = self.S(st.body, f"Ok {tup}", ind + "    ")
            self.defined = set(before)
            b = self.S(st.orelse, f"Ok {tup}", ind + "    ")
            self.defined = set(before) | set(vs)
            return (f"{pat} <- ({c} <- {test} ;;\n{ind}  if {c} then\n{ind}    {a}\n{ind}  else\n{ind}    {b}) ;;\n"
                    f"{ind}{self.S(rest, fin, ind)}")
        self.bad("statement", st)


def expect_params(fn: ast.FunctionDef, names: list[str], where: str):
    got = [a.arg for a in fn.args.args]
    if got != names or fn.args.vararg or fn.args.kwarg or fn.args.kwonlyargs or fn.args.posonlyargs:
        raise px.Unsupported(f"{where}: parameters {got}, expected {names}")


def find_method(cls: ast.ClassDef, name: str) -> ast.FunctionDef:
    found = [n for n in cls.body if isinstance(n, ast.FunctionDef) and n.name == name]
    if len(found) != 1:
        raise px.Unsupported(f"expected exactly one method {cls.name}.{name}, found {len(found)}")
    return found[0]


def body_wo_doc(fn: ast.FunctionDef) -> list:
    b = list(fn.body)
    if b and isinstance(b[0], ast.Expr) and isinstance(b[0].value, ast.Constant) and isinstance(b[0].value.value, str):
        b = b[1:]
    return b


# ====================================================================== statement skeletons
# For stateful code (loops, try/except, attribute updates) the control structure is pinned as text, and the
# arithmetic inside it - loop and branch conditions, slice bounds, offsets, initial values - is lifted out and
# regenerated as small Gallina functions over Z which the hand-written model calls.  An edited comparison or
# offset gives a different generated function; the bridging lemmas in the proofs then fail.

class _Lifter(ast.NodeTransformer):
    def __init__(self, targets: set[str]):
        self.targets = targets
        self.lifted: list[ast.expr] = []

    def hole(self, node):
        self.lifted.append(node)
        return ast.copy_location(ast.Name(id=f"E{len(self.lifted)}", ctx=ast.Load()), node)

    def visit_If(self, node):
        node.test = self.hole(node.test)
        node.body = [self.visit(s) for s in node.body]
        node.orelse = [self.visit(s) for s in node.orelse]
        return node

    def visit_While(self, node):
        node.test = self.hole(node.test)
        node.body = [self.visit(s) for s in node.body]
        return node

    def visit_Assign(self, node):
        if len(node.targets) == 1 and norm(node.targets[0]) in self.targets:
            node.value = self.hole(node.value)
        else:
            node.value = self.visit(node.value)
        return node

    def visit_AugAssign(self, node):
        if norm(node.target) in self.targets:
            node.value = self.hole(node.value)
        return node

    def visit_Slice(self, node):
        if node.lower is not None:
            node.lower = self.hole(node.lower)
        if node.upper is not None:
            node.upper = self.hole(node.upper)
        return node

    def visit_Call(self, node):
        if isinstance(node.func, ast.Attribute) and node.func.attr == "seek":
            node.args = [self.hole(a) for a in node.args]
            return node
        return self.generic_visit(node)


def skeleton(fn: ast.FunctionDef, targets: set[str]):
    import copy
    body = copy.deepcopy(body_wo_doc(fn))
    lf = _Lifter(targets)
    out = [lf.visit(s) for s in body]
    return "\n".join(norm(s) for s in out), lf.lifted


def zexpr(node, vm: dict, where: str) -> str:
    """integer / boolean expression over Z; vm maps source sub-expression texts to Gallina variables"""
    key = norm(node)
    if key in vm:
        return vm[key]
    if isinstance(node, ast.Constant) and isinstance(node.value, int) and not isinstance(node.value, bool):
        return f"({node.value})%Z"
    if isinstance(node, ast.UnaryOp) and isinstance(node.op, ast.USub) and isinstance(node.operand, ast.Constant):
        return f"(-{node.operand.value})%Z"
    if isinstance(node, ast.UnaryOp) and isinstance(node.op, ast.Not):
        return f"negb ({zexpr(node.operand, vm, where)})"
    if isinstance(node, ast.BinOp) and isinstance(node.op, (ast.Add, ast.Sub)):
        op = "+" if isinstance(node.op, ast.Add) else "-"
        return f"({zexpr(node.left, vm, where)} {op} {zexpr(node.right, vm, where)})%Z"
    if isinstance(node, ast.BoolOp):
        op = "&&" if isinstance(node.op, ast.And) else "||"
        return "(" + f" {op} ".join(zexpr(v, vm, where) for v in node.values) + ")"
    if isinstance(node, ast.Compare) and len(node.ops) == 1:
        a, b = zexpr(node.left, vm, where), zexpr(node.comparators[0], vm, where)
        tbl = {ast.Lt: "<?", ast.LtE: "<=?", ast.Gt: ">?", ast.GtE: ">=?", ast.Eq: "=?"}
        if type(node.ops[0]) in tbl:
            return f"({a} {tbl[type(node.ops[0])]} {b})%Z"
        if isinstance(node.ops[0], ast.NotEq):
            return f"negb ({a} =? {b})%Z"
    if isinstance(node, ast.IfExp) and norm(node.test) == f"{norm(node.body)} is not None" and isinstance(node.body, ast.Name) \
            and ("opt:" + node.body.id) in vm:
        return f"match {vm['opt:' + node.body.id]} with Some v => v | None => {zexpr(node.orelse, vm, where)} end"
    raise px.Unsupported(f"{where}: arithmetic expression `{key}` outside the translated subset")


def gen_skeleton(fn, where, targets, want_skel, roles, vm) -> str:
    """roles: per lifted expression either ('pin', text) or ('gen', name, params, rettype)"""
    skel, lifted = skeleton(fn, targets)
    if skel != want_skel:
        raise px.Unsupported(f"{where}: statement structure changed:\n{skel}")
    if len(lifted) != len(roles):
        raise px.Unsupported(f"{where}: {len(lifted)} lifted expressions, expected {len(roles)}")
    out = ""
    for node, role in zip(lifted, roles):
        if role[0] == "pin":
            if norm(node) != role[1]:
                raise px.Unsupported(f"{where}: expression `{norm(node)}` changed (expected `{role[1]}`)")
        else:
            _, name, params, rt = role
            out += f"Definition {name} {params} : {rt} := {zexpr(node, vm, where)}.\n"
    return out


RW_VM = {"self.read_length": "read_length", "self.start_byte": "start_byte", "self.end_byte": "end_byte",
         "contextual_read_length": "contextual_read_length", "start_byte": "start_byte", "byte_range": "byte_range",
         "len(chunk)": "chunk_len", "self.end_byte is not None": "end_byte_set", "chunk": "chunk_truthy",
         "self.end_reached": "end_reached"}
RW_SKEL = {
    "__init__": ("self.iterable = iter(iterable)\nself.byte_range = byte_range\nself.start_byte = start_byte\nself.end_byte = E1\n"
                 "if E2:\n    self.end_byte = E3\nself.read_length = E4\n"
                 "self.seekable = hasattr(iterable, 'seekable') and iterable.seekable()\nself.end_reached = False",
                 [("pin", "None"), ("pin", "byte_range is not None"),
                  ("gen", "rw_end_byte", "(start_byte byte_range : Z)", "Z"), ("gen", "rw_initial_read_length", "", "Z")]),
    "_next_chunk": ("try:\n    chunk = next(self.iterable)\n    self.read_length += E1\n    return chunk\n"
                    "except StopIteration:\n    self.end_reached = True\n    raise",
                    [("gen", "rw_advance", "(chunk_len : Z)", "Z")]),
    "_first_iteration": ("chunk = None\nif E1:\n    self.iterable.seek(E2)\n    self.read_length = E3\n    contextual_read_length = E4\n"
                         "else:\n    while E5:\n        chunk = self._next_chunk()\n    if E6:\n        chunk = chunk[E7:]\n"
                         "    contextual_read_length = E8\nreturn (chunk, contextual_read_length)",
                         [("pin", "self.seekable"), ("gen", "rw_seek_pos", "(start_byte : Z)", "Z"), ("pin", "self.iterable.tell()"),
                          ("gen", "rw_crl_seek", "(read_length : Z)", "Z"),
                          ("gen", "rw_skip_more", "(read_length start_byte : Z)", "bool"), ("pin", "chunk is not None"),
                          ("gen", "rw_first_index", "(start_byte read_length : Z)", "Z"),
                          ("gen", "rw_crl_skip", "(start_byte : Z)", "Z")]),
    "_next": ("if E1:\n    raise StopIteration()\nchunk = None\ncontextual_read_length = E2\nif E3:\n"
              "    chunk, contextual_read_length = self._first_iteration()\nif E4:\n    chunk = self._next_chunk()\n"
              "if E5:\n    self.end_reached = True\n    return chunk[:E6]\nreturn chunk",
              [("pin", "self.end_reached"), ("gen", "rw_crl_plain", "(read_length : Z)", "Z"),
               ("gen", "rw_is_first", "(read_length : Z)", "bool"), ("pin", "chunk is None"),
               ("gen", "rw_range_done", "(end_byte_set : bool) (read_length end_byte : Z)", "bool"),
               ("gen", "rw_cut_index", "(end_byte contextual_read_length : Z)", "Z")]),
    "__next__": ("chunk = self._next()\nwhile E1:\n    chunk = self._next()\nif E2:\n    return chunk\nself.end_reached = True\n"
                 "raise StopIteration()",
                 [("gen", "rw_retry", "(chunk_truthy end_reached : bool)", "bool"), ("pin", "chunk")]),
}
RW_TARGETS = {"self.end_byte", "self.read_length", "contextual_read_length"}
# in rw_advance the generated function is the increment applied to read_length
PRH_VM = {"last_end": "last_end", "begin": "begin", "end": "end_", "_plain_int(end_str)": "last_pos", "opt:end": "end_opt"}
PRH_SKEL = (
    "if E1:\n    return None\nranges = []\nlast_end = E2\nunits, rng = value.split('=', 1)\nunits = units.strip().lower()\n"
    "for item in rng.split(','):\n    item = item.strip()\n    if E3:\n        return None\n    if E4:\n        if E5:\n"
    "            return None\n        try:\n            begin = E6\n        except ValueError:\n            return None\n"
    "        if E7:\n            return None\n        end = E8\n        last_end = E9\n    elif E10:\n"
    "        begin_str, end_str = item.split('-', 1)\n        begin_str = begin_str.strip()\n        end_str = end_str.strip()\n"
    "        try:\n            begin = E11\n        except ValueError:\n            return None\n        if E12:\n"
    "            return None\n        if E13:\n            if E14:\n                return None\n            try:\n"
    "                end = E15\n            except ValueError:\n                return None\n            if E16:\n"
    "                return None\n        else:\n            end = E17\n        last_end = E18\n    ranges.append((begin, end))\n"
    "return ds.Range(units, ranges)")
PRH_ROLES = [
    ("pin", "not value or '=' not in value"), ("gen", "prh_last_end_init", "", "Z"), ("pin", "'-' not in item"),
    ("pin", "item.startswith('-')"), ("gen", "prh_suffix_blocked", "(last_end : Z)", "bool"), ("pin", "_plain_int(item)"),
    ("gen", "prh_suffix_empty", "(begin : Z)", "bool"), ("pin", "None"), ("gen", "prh_last_end_suffix", "", "Z"),
    ("pin", "'-' in item"), ("pin", "_plain_int(begin_str)"), ("gen", "prh_begin_blocked", "(begin last_end : Z)", "bool"),
    ("pin", "end_str"), ("pin", "end_str.startswith('-')"), ("gen", "prh_end_of", "(last_pos : Z)", "Z"),
    ("gen", "prh_empty_range", "(begin end_ : Z)", "bool"), ("pin", "None"),
    ("gen", "prh_last_end_next", "(end_opt : option Z)", "Z"),
]
PRH_TARGETS = {"last_end", "begin", "end"}


def gen_arith() -> None:
    """coq/C11/GenArith.v: the arithmetic of wsgi._RangeWrapper and http.parse_range_header"""
    wsgi = px.load("wsgi.py")
    http = px.load("http.py")
    out = ("(* GENERATED by tools/c11.py from wsgi.py (_RangeWrapper) and http.py (parse_range_header) on every run - do not edit.\n"
           "   The statement structure of these functions is pinned by the translator; the conditions, offsets and slice\n"
           "   bounds inside it are the definitions below. *)\nFrom Coq Require Import ZArith NArith Bool List.\nImport ListNotations.\nOpen Scope Z_scope.\n\n")
    cls = px.find_class(wsgi, "_RangeWrapper")
    for m in ("__init__", "_next_chunk", "_first_iteration", "_next", "__next__"):
        want, roles = RW_SKEL[m]
        out += f"(* _RangeWrapper.{m} *)\n" + gen_skeleton(find_method(cls, m), f"_RangeWrapper.{m}", RW_TARGETS, want, roles, RW_VM)
    out += "\n(* http.parse_range_header *)\n"
    out += gen_skeleton(px.find_def(http, "parse_range_header"), "parse_range_header", PRH_TARGETS, PRH_SKEL, PRH_ROLES, PRH_VM)
    # utils.send_file: what it hands to make_conditional (pinned statements) and wrap_file's default block size
    utils = px.load("utils.py")
    sf = px.find_def(utils, "send_file")
    stmts = {norm(n) for n in ast.walk(sf) if isinstance(n, ast.stmt)}
    for want_stmt in ("size = stat.st_size", "size = file.getbuffer().nbytes", "data = wrap_file(environ, file)",
                      "rv = response_class(data, mimetype=mimetype, headers=headers, direct_passthrough=True)",
                      "if size is not None:\n    rv.content_length = size",
                      "rv = rv.make_conditional(environ, accept_ranges=True, complete_length=size)"):
        if want_stmt not in stmts:
            raise px.Unsupported(f"send_file: statement `{want_stmt}` no longer occurs")
    wf = px.find_def(wsgi, "wrap_file")
    expect_params(wf, ["environ", "file", "buffer_size"], "wrap_file")
    bsz = [px.const(d) for d in wf.args.defaults]
    if len(bsz) != 1 or not isinstance(bsz[0], int):
        raise px.Unsupported("wrap_file: default buffer_size")
    if "return environ.get('wsgi.file_wrapper', FileWrapper)(file, buffer_size)" not in {norm(n) for n in ast.walk(wf) if isinstance(n, ast.stmt)}:
        raise px.Unsupported("wrap_file: body changed")
    out += f"\n(* wsgi.wrap_file default buffer_size *)\nDefinition file_wrapper_buffer_size : N := {bsz[0]}%N.\n"
    # ---- the headers around the status: 416's Content-Range, what get_wsgi_headers strips on 304 / 1xx / 204
    exc = px.load("exceptions.py")
    rns = px.find_class(exc, "RequestedRangeNotSatisfiable")
    if px.const(px.find_assign(rns, "code")) != 416:
        raise px.Unsupported("RequestedRangeNotSatisfiable.code")
    init = find_method(rns, "__init__")
    expect_params(init, ["self", "length", "units", "description", "response"], "RequestedRangeNotSatisfiable.__init__")
    dflt = [px.const(d) for d in init.args.defaults]
    if dflt[:1] != [None] or not isinstance(dflt[1], str):
        raise px.Unsupported("RequestedRangeNotSatisfiable defaults")
    want = ("headers = super().get_headers(environ, scope)\nif self.length is not None:\n"
            "    headers.append(('Content-Range', f'{self.units} */{self.length}'))\nreturn headers")
    if "\n".join(norm(x) for x in body_wo_doc(find_method(rns, "get_headers"))) != want:
        raise px.Unsupported("RequestedRangeNotSatisfiable.get_headers changed")
    out += ("\n(* exceptions.RequestedRangeNotSatisfiable: Content-Range is <units> */<length>, units default *)\n"
            f"Definition unsatisfiable_units : list N := {px.coq_string_codes(dflt[1])}.\n")
    eh = px.const(px.find_assign(http, "_entity_headers").args[0]) if isinstance(px.find_assign(http, "_entity_headers"), ast.Call) else None
    if not (isinstance(eh, list) and all(isinstance(x, str) for x in eh)):
        raise px.Unsupported("_entity_headers is not frozenset([...literals...])")
    ref = px.find_def(http, "remove_entity_headers")
    allowed = px.const(ref.args.defaults[0])
    if not (isinstance(allowed, tuple) and all(isinstance(x, str) for x in allowed)):
        raise px.Unsupported("remove_entity_headers default")
    want = ("allowed = {x.lower() for x in allowed}\n"
            "headers[:] = [(key, value) for key, value in headers if not is_entity_header(key) or key.lower() in allowed]")
    if "\n".join(norm(x) for x in body_wo_doc(ref)) != want:
        raise px.Unsupported("remove_entity_headers changed")
    if "\n".join(norm(x) for x in body_wo_doc(px.find_def(http, "is_entity_header"))) != "return header.lower() in _entity_headers":
        raise px.Unsupported("is_entity_header changed")
    resp = px.load("wrappers/response.py")
    gwh = find_method(px.find_class(resp, "Response"), "get_wsgi_headers")
    want_strip = ("if 100 <= status < 200 or status == 204:\n    headers.remove('Content-Length')\n"
                  "elif status == 304:\n    remove_entity_headers(headers)")
    if want_strip not in {norm(n) for n in ast.walk(gwh) if isinstance(n, ast.If)}:
        raise px.Unsupported("get_wsgi_headers: the header-stripping statement changed")
    out += ("\n(* http._entity_headers, the default `allowed` of remove_entity_headers; Response.get_wsgi_headers strips the entity\n"
            "   headers on 304 and Content-Length on 1xx / 204 (statement pinned) *)\n"
            "Definition entity_headers : list (list N) := [" + "; ".join(px.coq_string_codes(x) for x in sorted(eh)) + "].\n"
            "Definition entity_allowed : list (list N) := [" + "; ".join(px.coq_string_codes(x.lower()) for x in allowed) + "].\n")
    # http.quote_etag: the rendering that C11_etag_unquote / C11_etag_list_grammar are about (render_tag)
    want = ("if '\"' in etag:\n    raise ValueError('invalid etag')\netag = f'\"{etag}\"'\nif weak:\n    etag = f'W/{etag}'\nreturn etag")
    if "\n".join(norm(x) for x in body_wo_doc(px.find_def(http, "quote_etag"))) != want:
        raise px.Unsupported("quote_etag changed")
    # FileWrapper.__next__: blocks of buffer_size, never empty
    fw = px.find_class(wsgi, "FileWrapper")
    want = "data = self.file.read(self.buffer_size)\nif data:\n    return data\nraise StopIteration()"
    if "\n".join(norm(s) for s in body_wo_doc(find_method(fw, "__next__"))) != want:
        raise px.Unsupported("FileWrapper.__next__ changed")
    px.write_if_changed(os.path.join(COQ, "C11", "GenArith.v"), out)


IRM_PROLOGUE = [
    "if etag is None and data is not None:\n    etag = generate_etag(data)\nelif data is not None:\n    raise TypeError('both data and etag given')",
]
IRM_PARAMS = ["http_range", "http_if_range", "http_if_modified_since", "http_if_none_match", "http_if_match", "etag", "data",
              "last_modified", "ignore_if_range"]
ENV_KEYS = {"http_range": "HTTP_RANGE", "http_if_range": "HTTP_IF_RANGE", "http_if_modified_since": "HTTP_IF_MODIFIED_SINCE",
            "http_if_none_match": "HTTP_IF_NONE_MATCH", "http_if_match": "HTTP_IF_MATCH"}
ENV_FIELD = {"HTTP_RANGE": "q_range", "HTTP_IF_RANGE": "q_if_range", "HTTP_IF_MODIFIED_SINCE": "q_if_modified_since",
             "HTTP_IF_NONE_MATCH": "q_if_none_match", "HTTP_IF_MATCH": "q_if_match", "REQUEST_METHOD": "q_method"}


def _last_def(mod, name):
    found = [n for n in getattr(mod, "body", []) if isinstance(n, ast.FunctionDef) and n.name == name]
    if not found:
        raise px.Unsupported(f"def {name} not found")
    return found[-1]


def _setter(cls, name):
    for n in cls.body:
        if isinstance(n, ast.FunctionDef) and n.name == name and any(norm(d) == f"{name}.setter" for d in n.decorator_list):
            return n
    raise px.Unsupported(f"setter {cls.name}.{name} not found")


def gen_pins() -> None:
    """(b) statement pins: the hand-written model and the oracles were written against these texts (tools/pins/c11_*.txt);
    sub-expressions that are translated into Gen.v / GenArith.v are holes.  Layout, comments and docstrings do not matter."""
    http = px.load("http.py")
    resp = px.load("wrappers/response.py")
    sresp = px.load("sansio/response.py")
    rng = px.load("datastructures/range.py")
    etag = px.load("datastructures/etag.py")
    wsgi = px.load("wsgi.py")
    exc = px.load("exceptions.py")
    utils = px.load("utils.py")
    internal = px.load("_internal.py")
    R = px.find_class(resp, "Response")
    SR = px.find_class(sresp, "Response")

    def sk(node, holes=None):
        import copy
        node = copy.deepcopy(node)
        for n in ast.walk(node):          # docstrings of nested methods do not matter either
            if isinstance(n, (ast.FunctionDef, ast.ClassDef)) and n.body and isinstance(n.body[0], ast.Expr) \
                    and isinstance(n.body[0].value, ast.Constant) and isinstance(n.body[0].value.value, str):
                n.body = n.body[1:] or [ast.Pass()]
        return px.skeleton(node, holes)

    def ind(t):
        return "\n".join("    " + ln if ln else ln for ln in t.split("\n"))

    pr = find_method(R, "_process_range_request")
    guard = norm([n for n in body_wo_doc(pr) if isinstance(n, ast.If)][0].test)
    parts = [
        sk(find_method(R, "make_conditional"), {"('GET', 'HEAD')": "<T1:conditional_methods>",
                                                "self.status_code = 412": "self.status_code = <T1:status_precondition_failed>",
                                                "self.status_code = 304": "self.status_code = <T1:status_not_modified>"}),
        sk(pr, {guard: "<T2:range_request_skipped>"}),
        sk(find_method(R, "_wrap_range_response")),
        "<T2:is_range_request_processable> _is_range_request_processable",
        sk(find_method(R, "add_etag")), sk(find_method(R, "freeze")), sk(find_method(R, "get_app_iter")),
        sk(find_method(R, "calculate_content_length")), sk(find_method(R, "_ensure_sequence")), sk(find_method(R, "make_sequence")),
        sk(find_method(SR, "set_etag")), sk(find_method(SR, "get_etag")), sk(_setter(SR, "content_range")),
    ]
    px.check_pin(PID, "c11_response.txt", "\n\n".join(parts) + "\n", "the Response methods the C11 model / oracles stand for")

    parts = [sk(_last_def(http, n)) for n in ("parse_etags", "quote_etag", "unquote_etag", "generate_etag", "parse_if_range_header",
                                                "parse_date", "http_date", "remove_entity_headers", "is_entity_header")]
    parts += [sk(px.find_def(internal, "_plain_int")), sk(_last_def(internal, "_dt_as_utc"))]
    px.check_pin(PID, "c11_http.txt", "\n\n".join(parts) + "\n", "the http helpers the C11 model / date contract stand for")

    RG, IR, ET = px.find_class(rng, "Range"), px.find_class(rng, "IfRange"), px.find_class(etag, "ETags")
    parts = [sk(find_method(RG, "__init__")), sk(find_method(RG, "to_content_range_header")), "<T2:range_for_length> Range.range_for_length",
             sk(find_method(IR, "__init__"))]
    parts += [sk(find_method(ET, m)) for m in ("__init__", "is_weak", "is_strong", "contains_weak", "contains", "__bool__")]
    px.check_pin(PID, "c11_datastructures.txt", "\n\n".join(parts) + "\n", "Range / IfRange / ETags as modelled in C11/Base.v")

    FW, RW = px.find_class(wsgi, "FileWrapper"), px.find_class(wsgi, "_RangeWrapper")
    parts = [sk(FW, {ind(sk(find_method(FW, "seekable"))): "    def seekable(self) -> bool:\n        <T2:file_wrapper_seekable>"}),
             sk(px.find_def(wsgi, "wrap_file"), {"buffer_size: int=8192": "buffer_size: int=<T1:file_wrapper_buffer_size>"}),
             sk(find_method(RW, "__iter__")), sk(find_method(RW, "close")),
             "<skeleton + GenArith.v> _RangeWrapper.__init__ / _next_chunk / _first_iteration / _next / __next__"]
    px.check_pin(PID, "c11_wsgi.txt", "\n\n".join(parts) + "\n", "FileWrapper / wrap_file / _RangeWrapper as modelled in C11/Model.v")

    sf = px.find_def(utils, "send_file")
    # the automatic ETag of a path: full-resolution mtime, size, adler32 of the path - each component named
    auto = [n for n in ast.walk(sf) if isinstance(n, ast.Call) and norm(n.func) == "rv.set_etag" and n.args
            and isinstance(n.args[0], ast.JoinedStr)]
    if len(auto) != 1:
        raise px.Unsupported("send_file: the automatic ETag is no longer one rv.set_etag(f'...') call")
    comps = [norm(v.value) for v in auto[0].args[0].values if isinstance(v, ast.FormattedValue)]
    if comps != ["mtime", "size", "check"]:
        raise px.Unsupported(f"send_file: the automatic ETag is built from {comps}, not from the full-resolution mtime, the size "
                             "and the checksum of the path: representations that differ in the dropped component share a validator")
    assigns = {norm(n) for n in ast.walk(sf) if isinstance(n, ast.Assign)}
    for want_a in ("mtime = stat.st_mtime", "size = stat.st_size", "check = adler32(path.encode()) & 4294967295"):
        if want_a not in assigns:
            raise px.Unsupported(f"send_file: `{want_a}` no longer occurs (component of the automatic ETag)")
    blocks = [norm(n) for n in ast.walk(sf) if isinstance(n, ast.If) and norm(n.test) in
              ("conditional", "isinstance(etag, str)", "last_modified is not None", "size is not None", "file is None")]
    parts = [sk(px.find_class(exc, "RequestedRangeNotSatisfiable"), {"units: str='bytes'": "units: str=<T1:unsatisfiable_units>"}),
             "send_file:\n" + "\n".join(blocks)]
    px.check_pin(PID, "c11_misc.txt", "\n\n".join(parts) + "\n",
                 "RequestedRangeNotSatisfiable / the blocks of send_file that feed make_conditional")


def gen() -> None:
    """T1 + T2: regenerate coq/C11/GenArith.v and coq/C11/Gen.v from the anchored source files, then compare the statement pins."""
    gen_arith()
    gen_t2()
    gen_pins()


def gen_t2() -> None:
    http = px.load("http.py")
    sans = px.load("sansio/http.py")
    rng = px.load("datastructures/range.py")
    resp = px.load("wrappers/response.py")
    internal = px.load("_internal.py")
    out = "(* GENERATED by tools/c11.py from http.py, sansio/http.py, datastructures/range.py, wrappers/response.py, " \
          "_internal.py on every run - do not edit *)\n" \
          "From Coq Require Import ZArith.\nFrom Wz Require Import lib.Bytes C11.Base.\nOpen Scope N_scope.\n\n"

    # ---------------------------------------------------------------- T1 pattern texts and constants
    e1, f1 = px.regex_of(px.find_assign(http, "_etag_re"))
    e2, f2 = px.regex_of(px.find_assign(sans, "_etag_re"))
    pi, pif = px.regex_of(px.find_assign(internal, "_plain_int_re"))
    for pat in (e1, e2, pi):
        if not isinstance(pat, str):
            raise px.Unsupported("pattern type changed (str expected)")
    out += f"Definition etag_re_text : list N := {px.coq_string_codes(e1)}.\n"
    out += f"Definition etag_re_flags : N := {int(f1)}.\n"
    out += f"Definition etag_re_text_sansio : list N := {px.coq_string_codes(e2)}.\n"
    out += f"Definition plain_int_re_text : list N := {px.coq_string_codes(pi)}.\n"
    out += f"Definition plain_int_re_flags : N := {int(pif)}.\n"
    # _plain_int: strip, fullmatch, int
    pfn = px.find_def(internal, "_plain_int")
    want = "value = value.strip()\nif _plain_int_re.fullmatch(value) is None:\n    raise ValueError\nreturn int(value)"
    if "\n".join(norm(s) for s in body_wo_doc(pfn)) != want:
        raise px.Unsupported("_plain_int body changed")
    # str.lower() can only produce the letters of "bytes" from ASCII letters (the model lowers ASCII only)
    odd = [c for c in range(128, 0x110000) if set(chr(c).lower()) & set("bytes")]
    out += f"Definition non_ascii_lowering_into_bytes : list N := {px.coq_nlist(odd)}.\n"
    # white space of str.strip() and of the Unicode \s used by _etag_re
    ws = [c for c in range(0x110000) if chr(c).isspace()]
    ws_re = [c for c in range(0x110000) if re.fullmatch(r"\s", chr(c))]
    if ws != ws_re:
        raise px.Unsupported("str.isspace and re \\s disagree in this interpreter")
    out += f"Definition interp_ws : list (N * N) := {px.coq_ranges(ws)}.\n"

    # make_conditional: the method tuple and the two status codes
    cls = px.find_class(resp, "Response")
    mc = find_method(cls, "make_conditional")
    methods = None
    status = []
    for node in ast.walk(mc):
        if isinstance(node, ast.Compare) and norm(node.left) == "environ['REQUEST_METHOD']":
            if len(node.ops) != 1 or not isinstance(node.ops[0], ast.In):
                raise px.Unsupported("make_conditional: method test is not `in`")
            methods = px.const(node.comparators[0])
        if isinstance(node, ast.Assign) and norm(node.targets[0]) == "self.status_code":
            status.append(px.const(node.value))
    if not (isinstance(methods, tuple) and all(isinstance(m, str) for m in methods)):
        raise px.Unsupported("make_conditional: method tuple not found")
    if len(status) != 2:
        raise px.Unsupported(f"make_conditional assigns status_code {len(status)} times, expected 2")
    out += "Definition conditional_methods : list (list N) := [" + "; ".join(px.coq_string_codes(m) for m in methods) + "].\n"
    out += f"Definition status_precondition_failed : N := {int(status[0])}.\n"
    out += f"Definition status_not_modified : N := {int(status[1])}.\n"
    # the decision of make_conditional, pinned as text (its shape is mirrored by Model.make_conditional)
    want_mc = ("if not is206 and (not is_resource_modified(environ, self.headers.get('etag'), None, "
               "self.headers.get('last-modified'))):\n    if parse_etags(environ.get('HTTP_IF_MATCH')):\n"
               f"        self.status_code = {status[0]}\n    else:\n        self.status_code = {status[1]}")
    got_mc = [norm(n) for n in ast.walk(mc) if isinstance(n, ast.If) and "is206" in norm(n.test)]
    if got_mc != [want_mc]:
        raise px.Unsupported("make_conditional: the 304/412 decision statement changed")
    want_206 = "is206 = self._process_range_request(environ, complete_length, accept_ranges)"
    if want_206 not in [norm(n) for n in ast.walk(mc) if isinstance(n, ast.Assign)]:
        raise px.Unsupported("make_conditional: the call of _process_range_request changed")

    # _process_range_request: status 206, the tail after the guard pinned as text
    pr = find_method(cls, "_process_range_request")
    expect_params(pr, ["self", "environ", "complete_length", "accept_ranges"], "_process_range_request")
    prb = body_wo_doc(pr)
    if not (prb and isinstance(prb[0], ast.ImportFrom)):
        raise px.Unsupported("_process_range_request: leading import expected")
    prb = prb[1:]
    if not (isinstance(prb[0], ast.If) and [norm(s) for s in prb[0].body] == ["return False"] and not prb[0].orelse):
        raise px.Unsupported("_process_range_request: guard statement changed")
    guard_test = prb[0].test
    tail = "\n".join(norm(s) for s in prb[1:])
    want_tail = ("if accept_ranges is True:\n    accept_ranges = 'bytes'\n"
                 "parsed_range = parse_range_header(environ.get('HTTP_RANGE'))\n"
                 "if parsed_range is None:\n    raise RequestedRangeNotSatisfiable(complete_length)\n"
                 "range_tuple = parsed_range.range_for_length(complete_length)\n"
                 "content_range_header = parsed_range.to_content_range_header(complete_length)\n"
                 "if range_tuple is None or content_range_header is None:\n    raise RequestedRangeNotSatisfiable(complete_length)\n"
                 "content_length = range_tuple[1] - range_tuple[0]\n"
                 "self.headers['Content-Length'] = str(content_length)\n"
                 "self.headers['Accept-Ranges'] = accept_ranges\n"
                 "self.content_range = content_range_header\n"
                 "self.status_code = 206\n"
                 "self._wrap_range_response(range_tuple[0], content_length)\n"
                 "return True")
    if tail != want_tail:
        raise px.Unsupported("_process_range_request: the statements after the guard changed")
    out += "Definition status_partial_content : N := 206.\n"
    wr = find_method(cls, "_wrap_range_response")
    if "\n".join(norm(s) for s in body_wo_doc(wr)) != \
            "if self.status_code == 206:\n    self.response = _RangeWrapper(self.response, start, length)":
        raise px.Unsupported("_wrap_range_response changed")

    # Range.to_content_range_header: the f-string
    rcls = px.find_class(rng, "Range")
    tcr = find_method(rcls, "to_content_range_header")
    want = ("range = self.range_for_length(length)\nif range is not None:\n"
            "    return f'{self.units} {range[0]}-{range[1] - 1}/{length}'\nreturn None")
    if "\n".join(norm(s) for s in body_wo_doc(tcr)) != want:
        raise px.Unsupported("Range.to_content_range_header changed")

    out += "\n(* ---- T2: http.is_byte_range_valid *)\n"
    fn = px.find_def(http, "is_byte_range_valid")
    expect_params(fn, ["start", "stop", "length"], "is_byte_range_valid")
    t = T2("is_byte_range_valid", {"start": "int", "stop": "int", "length": "int"}, params=["start", "stop", "length"])
    out += "Definition is_byte_range_valid (start stop length : pint) : res bool :=\n  " + t.S(body_wo_doc(fn), None) + ".\n"

    out += "\n(* ---- T2: datastructures.Range.range_for_length *)\n"
    fn = find_method(rcls, "range_for_length")
    expect_params(fn, ["self", "length"], "range_for_length")
    t = T2("range_for_length", {"length": "int"},
           atoms={"self.units != 'bytes'": ("Ok (negb (list_eqb (r_units self) s_bytes))", "bool"),
                  "len(self.ranges)": ("Ok (Some (Z.of_nat (List.length (r_ranges self))))", "int"),
                  "self.ranges[0]": ("ranges_first self", "pair(int,int)")},
           funcs={"http.is_byte_range_valid": ("is_byte_range_valid", ["int", "int", "int"], "bool", False)},
           ret="opt_pair", params=["length"])
    out += ("Definition ranges_first (r : range) : res (pint * pint) :=\n"
            "  match r_ranges r with (a, b) :: _ => Ok (Some a, b) | [] => Raise ValueError end.\n")
    t.infer_locals(body_wo_doc(fn))
    out += "Definition range_for_length (self : range) (length : pint) : res (option (pint * pint)) :=\n  " \
           + t.S(body_wo_doc(fn), None) + ".\n"
    for a in t.atoms:
        if a not in t.used_atoms:
            raise px.Unsupported(f"range_for_length: expected sub-expression `{a}` no longer occurs")

    out += "\n(* ---- T2: sansio.http.is_resource_modified (data = None) *)\nSection Dates.\nVariable parse_date : str -> option Z.\n"
    fn = px.find_def(sans, "is_resource_modified")
    expect_params(fn, IRM_PARAMS, "is_resource_modified")
    body = body_wo_doc(fn)
    for i, pin in enumerate(IRM_PROLOGUE):
        if norm(body[i]) != pin:
            raise px.Unsupported(f"is_resource_modified: statement {i} changed: {norm(body[i])!r}")
    body = body[len(IRM_PROLOGUE):]
    t = T2("is_resource_modified",
           {"http_range": "ostr", "http_if_range": "ostr", "http_if_modified_since": "ostr", "http_if_none_match": "ostr",
            "http_if_match": "ostr", "etag": "ostr", "last_modified": "lm", "ignore_if_range": "bool"},
           atoms={"isinstance(last_modified, str)": ("Ok (lm_is_str last_modified)", "bool"),
                  "parse_date(last_modified)": ("Ok (lm_parse parse_date last_modified)", "lm"),
                  "_dt_as_utc(last_modified.replace(microsecond=0))": ("lm_floor last_modified", "lm"),
                  "parse_if_range_header(http_if_range)": ("Ok (Some (parse_if_range_header parse_date http_if_range))", "oifr"),
                  "parse_date(http_if_modified_since)": ("Ok (parse_date_opt parse_date http_if_modified_since)", "odate"),
                  "unquote_etag(etag)": ("Ok (unquote_etag etag)", "pair(ostr,obool)")},
           # the local variables (unmodified, if_range, modified_since, if_none_match, if_match in the current source) are
           # recognised by the types of what is assigned to them, not by their names
           attrs={("oifr", "date"): ("ifr_date_", "odate"), ("oifr", "etag"): ("ifr_etag_", "ostr")},
           cmps={("LtE", "lm", "odate"): "dt_le"},
           funcs={"parse_etags": ("parse_etags", ["ostr"], "etags", False)},
           methods={"contains": ("contains", ["etags", "ostr"], "bool", True),
                    "contains_weak": ("contains_weak", ["etags", "ostr"], "bool", True),
                    "is_strong": ("is_strong", ["etags", "ostr"], "bool", True),
                    "is_weak": ("is_weak", ["etags", "ostr"], "bool", True)},
           params=[p for p in IRM_PARAMS if p != "data"])
    t.infer_locals(body)
    out += ("Definition is_resource_modified (http_range http_if_range http_if_modified_since http_if_none_match http_if_match "
            "etag : option str)\n    (last_modified : lmval) (ignore_if_range : bool) : res bool :=\n  "
            + t.S(body, None) + ".\n")
    for a in t.atoms:
        if a not in t.used_atoms:
            raise px.Unsupported(f"is_resource_modified: expected sub-expression `{a}` no longer occurs")

    # http.is_resource_modified(environ, ...): which environ key feeds which parameter
    fn = px.find_def(http, "is_resource_modified")
    expect_params(fn, ["environ", "etag", "data", "last_modified", "ignore_if_range"], "http.is_resource_modified")
    b = body_wo_doc(fn)
    if not (len(b) == 1 and isinstance(b[0], ast.Return) and isinstance(b[0].value, ast.Call)
            and norm(b[0].value.func) == "_sansio_http.is_resource_modified" and not b[0].value.args):
        raise px.Unsupported("http.is_resource_modified is no longer a single keyword call of the sans-io function")
    kws = {k.arg: norm(k.value) for k in b[0].value.keywords}
    args = []
    for p in IRM_PARAMS:
        if p not in kws:
            raise px.Unsupported(f"http.is_resource_modified does not pass {p}")
        v = kws[p]
        if p in ENV_KEYS:
            m = re.fullmatch(r"environ\.get\('(\w+)'\)", v)
            if not m or m.group(1) not in ENV_FIELD:
                raise px.Unsupported(f"http.is_resource_modified passes {v} for {p}")
            args.append(f"({ENV_FIELD[m.group(1)]} env)")
        elif p == "data":
            if v != "data":
                raise px.Unsupported("http.is_resource_modified: data")
        else:
            if v != p:
                raise px.Unsupported(f"http.is_resource_modified passes {v} for {p}")
            args.append(p)
    out += ("Definition is_resource_modified_env (env : environ) (etag : option str) (last_modified : lmval) "
            "(ignore_if_range : bool) : res bool :=\n  is_resource_modified " + " ".join(args) + ".\n")
    # default of ignore_if_range
    dflt = [px.const(d) for d in fn.args.defaults]
    if dflt != [None, None, None, True]:
        raise px.Unsupported("http.is_resource_modified defaults changed")

    out += "\n(* ---- T2: Response._is_range_request_processable *)\n"
    fn = find_method(cls, "_is_range_request_processable")
    expect_params(fn, ["self", "environ"], "_is_range_request_processable")
    t = T2("_is_range_request_processable", {},
           atoms={"'HTTP_IF_RANGE' not in environ": ("Ok (is_none (q_if_range env))", "bool"),
                  "'HTTP_RANGE' in environ": ("Ok (is_some (q_range env))", "bool"),
                  "is_resource_modified(environ, self.headers.get('etag'), None, self.headers.get('last-modified'), ignore_if_range=False)":
                      ("is_resource_modified_env env etag (lm_of_header last_modified) false", "bool")})
    out += ("Definition is_range_request_processable (env : environ) (etag last_modified : option str) : res bool :=\n  "
            + t.S(body_wo_doc(fn), None) + ".\n")
    for a in t.atoms:
        if a not in t.used_atoms:
            raise px.Unsupported(f"_is_range_request_processable: expected sub-expression `{a}` no longer occurs")

    out += "\n(* ---- T2: the guard of Response._process_range_request (true = return False, no range processing) *)\n"
    t = T2("_process_range_request guard", {"accept_ranges": "accept", "complete_length": "int"}, params=["accept_ranges", "complete_length"],
           atoms={"self._is_range_request_processable(environ)": ("is_range_request_processable env etag last_modified", "bool")})
    out += ("Definition range_request_skipped (env : environ) (etag last_modified : option str) (accept_ranges : accept) "
            "(complete_length : pint) : res bool :=\n  " + t.B(guard_test) + ".\n")
    for a in t.atoms:
        if a not in t.used_atoms:
            raise px.Unsupported(f"_process_range_request: expected sub-expression `{a}` no longer occurs")
    out += "End Dates.\n"

    out += "\n(* ---- T2: wsgi.FileWrapper.seekable *)\n"
    fw = px.find_class(px.load("wsgi.py"), "FileWrapper")
    fn = find_method(fw, "seekable")
    expect_params(fn, ["self"], "FileWrapper.seekable")
    t = T2("FileWrapper.seekable", {},
           atoms={"hasattr(self.file, 'seekable')": ("Ok has_seekable", "bool"),
                  "self.file.seekable()": ("Ok file_seekable", "bool"),
                  "hasattr(self.file, 'seek')": ("Ok has_seek", "bool")})
    out += ("Definition file_wrapper_seekable (has_seekable file_seekable has_seek : bool) : res bool :=\n  "
            + t.S(body_wo_doc(fn), None) + ".\n")
    for a in t.atoms:
        if a not in t.used_atoms:
            raise px.Unsupported(f"FileWrapper.seekable: expected sub-expression `{a}` no longer occurs")
    px.write_if_changed(os.path.join(COQ, "C11", "Gen.v"), out)


# ====================================================================== harness
import datetime as _dt

EPOCH = _dt.datetime(1970, 1, 1, tzinfo=_dt.timezone.utc)
US = _dt.timedelta(microseconds=1)
KNOWN_KEYS = {
    "304-incomplete:range-served-before-preconditions",
    "304-incomplete:if-match-masks-if-modified-since",
    "if-range-overridden-by-other-validators",
    "if-range-weak-comparison",
}


def o(x):
    return "~" if x is None else cps(x)


def micros(dt) -> int:
    if dt.tzinfo is None:
        dt = dt.replace(tzinfo=_dt.timezone.utc)
    return (dt - EPOCH) // US


class NoSeek:
    """a readable object without seek/tell/seekable: FileWrapper over it is not seekable"""

    def __init__(self, data):
        self._b = io.BytesIO(data)

    def read(self, n=-1):
        return self._b.read(n)

    def close(self):
        pass


class OneWayRaw(io.RawIOBase):
    """forward-only raw stream (a socket or pipe): seekable() is False, the inherited seek() raises UnsupportedOperation"""

    def __init__(self, data):
        super().__init__()
        self._b = io.BytesIO(data)

    def readable(self):
        return True

    def seekable(self):
        return False

    def readinto(self, b):
        chunk = self._b.read(len(b))
        b[: len(chunk)] = chunk
        return len(chunk)


class SeekAttrNotSeekable:
    """read(), a seek attribute that refuses, seekable() == False"""

    def __init__(self, data):
        self._b = io.BytesIO(data)

    def read(self, n=-1):
        return self._b.read(n)

    def seekable(self):
        return False

    def seek(self, *a):
        raise io.UnsupportedOperation("seek")

    def tell(self):
        raise io.UnsupportedOperation("tell")

    def close(self):
        pass


class SeekOnly:
    """read(), working seek() / tell(), no seekable() method"""

    def __init__(self, data):
        self._b = io.BytesIO(data)

    def read(self, n=-1):
        return self._b.read(n)

    def seek(self, *a):
        return self._b.seek(*a)

    def tell(self):
        return self._b.tell()

    def close(self):
        pass


# wrapper kinds: (has a seekable() method, what it answers, has a seek attribute) = what FileWrapper.seekable() has to go by
WRAP_KINDS = {"file": (1, 1, 1), "file_np": (1, 1, 1), "file_noseek": (0, 0, 0), "fw_raw": (1, 0, 1), "fw_buffered": (1, 0, 1),
              "fw_seekattr": (1, 0, 1), "fw_seekonly": (0, 0, 1), "fw_pipe": (1, 0, 1)}


def open_file(kind: str, data: bytes):
    if kind in ("file", "file_np"):
        return io.BytesIO(data)
    if kind == "file_noseek":
        return NoSeek(data)
    if kind == "fw_raw":
        return OneWayRaw(data)
    if kind == "fw_buffered":
        return io.BufferedReader(OneWayRaw(data))
    if kind == "fw_seekattr":
        return SeekAttrNotSeekable(data)
    if kind == "fw_seekonly":
        return SeekOnly(data)
    if kind == "fw_pipe":
        r, w = os.pipe()
        try:
            if data:
                os.write(w, data)
        finally:
            os.close(w)
        return os.fdopen(r, "rb")
    raise ValueError(kind)


def chunkings(rng, data: bytes, allow_empty=True) -> list[bytes]:
    n = len(data)
    k = rng.choice([1, 1, 2, 3, 4, 6, max(1, n)])
    cuts = sorted(rng.randint(0, n) for _ in range(k - 1))
    out, prev = [], 0
    for c in cuts + [n]:
        out.append(data[prev:c])
        prev = c
    if allow_empty and rng.random() < 0.35:
        for _ in range(rng.randint(1, 2)):
            out.insert(rng.randint(0, len(out)), b"")
    if not allow_empty:
        out = [c for c in out if c]
    return out


def blocks_of(data: bytes, bs: int) -> list[bytes]:
    return [data[i:i + bs] for i in range(0, len(data), bs)] if bs > 0 else []


# ---------------------------------------------------------------- Range header grammar
def gen_range(rng, L: int):
    """(header text, semantics).  semantics: ('single', first, last|None) | ('suffix', n) | ('multi',) | ('unit',)
    | ('malformed',) | ('garbage',)"""
    vals = sorted({0, 1, 2, L // 2, max(L - 2, 0), max(L - 1, 0), L, L + 1, L + 7, 10 ** 6})
    r = rng.random()

    def ws():
        return rng.choice(["", "", "", " ", "\t", "  "])

    def num(v):
        return ("0" * rng.choice([0, 0, 0, 1, 2])) + str(v)

    def spec():
        q = rng.random()
        if q < 0.45:
            a = rng.choice(vals)
            b = rng.choice([v for v in vals if v >= a] or [a])
            return f"{ws()}{num(a)}{ws()}-{ws()}{num(b)}{ws()}", ("single", a, b)
        if q < 0.7:
            a = rng.choice(vals)
            return f"{ws()}{num(a)}{ws()}-{ws()}", ("single", a, None)
        n = rng.choice([v for v in vals if v > 0])
        return f"{ws()}-{num(n)}{ws()}", ("suffix", n)
    unit = rng.choice(["bytes"] * 8 + ["Bytes", "BYTES", " bytes ", "bytes\t"])
    if r < 0.6:
        t, sem = spec()
        return f"{unit}{ws()}={t}", sem
    if r < 0.7:
        # multi-range: ascending, non-overlapping so that the parser accepts it; or arbitrary
        a = rng.randint(0, max(L, 2))
        b = a + rng.randint(0, 3)
        c = b + 1 + rng.randint(0, 3)
        d = c + rng.randint(0, 3)
        tail = rng.choice([f"{c}-{d}", f"{c}-", f"-{rng.randint(1, 5)}", f"{a}-{b}"])
        return f"{unit}={a}-{b},{ws()}{tail}", ("multi",)
    if r < 0.78:
        t, _ = spec()
        u = rng.choice(["items", "byte", "", "bytess", "none", "b y t e s", "bytes bytes"])
        return f"{u}={t}", ("unit",)
    if r < 0.93:
        a, b = rng.choice(vals), rng.choice(vals)
        bad = rng.choice([
            f"bytes={b + 1}-{b}" if b >= 0 else "bytes=1-0", "bytes=-", "bytes=", "bytes", "bytes=abc", f"bytes={a}",
            f"bytes={a}-{b}-", f"bytes={a}--{b}", f"bytes=+{a}-{a + 1}", f"bytes=1_0-2_0", f"bytes={a}-{a + 1},",
            f"bytes=,{a}-{a + 1}", "bytes=-0", "bytes=--1", f"bytes={a}-x", f"bytes=x-{a}", "bytes=١-٢", f"bytes=-{a}x",
            f"bytes={a}.0-{a + 1}", f"bytes=0x1-0x2", f"bytes=- {a + 1}", f"bytes={a}-{a + 1};", "=", "==", f"={a}-{a + 1}",
            f"bytes=={a}-{a + 1}", f"bytes:{a}-{a + 1}", f"bytes {a}-{a + 1}", "bytes=-0,-0", f"bytes={a}-{a + 1}=",
        ])
        return bad, ("malformed",)
    atoms = ["bytes", "=", "-", ",", " ", "0", "1", "5", "9", str(L), "\t", "x", " ", "\x1f", "W", "--", "=-", "-,"]
    return "".join(rng.choice(atoms) for _ in range(rng.randint(0, 8))), ("garbage",)


def range_expect(sem, L: int):
    """what the property demands for a processed Range header on a resource of L > 0 bytes:
    ('206', first, last) | ('416',) | ('206or416', first, last) | None (unknown)"""
    if sem[0] == "single":
        a, b = sem[1], sem[2]
        if a >= L:
            return ("416",)
        return ("206", a, L - 1 if b is None else min(b, L - 1))
    if sem[0] == "suffix":
        n = sem[1]
        if n > L:
            return ("206or416", 0, L - 1)       # not pinned by the property
        return ("206", L - n, L - 1)
    if sem[0] in ("multi", "unit", "malformed"):
        return ("416",)
    return None


# ---------------------------------------------------------------- ETag lists
TAGS = ["abc", "xyz", "", "a-b", "0", "W", "a b", "*", "*"]      # "*" here is the QUOTED tag "*", an ordinary opaque tag


def gen_taglist(rng, cur: str):
    """(header text, semantics) ; semantics = (star, [(weak, opaque)...]) or None for garbage"""
    r = rng.random()
    if r < 0.1:
        return "*", (True, [])
    if r < 0.85:
        n = rng.choice([1, 1, 1, 2, 3, 4])
        tags = []
        for _ in range(n):
            t = cur if rng.random() < 0.45 else rng.choice(TAGS)
            tags.append((rng.random() < 0.35, t))
        sep = rng.choice([", ", ",", " , ", ",  ", "\t,\t"])
        elems = [("W/" if w else "") + '"' + t + '"' for w, t in tags]
        if rng.random() < 0.2:
            # empty list elements (leading, in the middle, doubled): RFC 7230 lists allow them and they carry no tag; the code
            # reads one as the empty unquoted tag, which only matters against an empty current tag (then: meaning unknown)
            for _ in range(rng.choice([1, 1, 2])):
                elems.insert(rng.randint(0, len(elems) - 1), "")
            text = sep.join(elems).lstrip()
            return text, ((False, tags) if cur != "" else None)
        text = sep.join(elems)
        return text, (False, tags)
    garbage = ['abc', '"abc', 'abc"', 'W/', '"a" "b"', ',', ', ,', ' ', '"abc" x', 'w/"abc"', 'W/abc', '**', '"*"', 'W/*',
               '"a", *', f'{cur}', f'"{cur}"  ', f'"{cur}";', "\"a\\\"b\"", '\x1f"abc"', '"abc" ,"xyz"', "''"]
    return rng.choice(garbage), None


def gen_etag_header(rng, cur: str):
    """response ETag header: (text|None, semantics) ; semantics = (weak, opaque) | None (absent) | 'garbage'"""
    r = rng.random()
    if r < 0.22:
        return None, None
    if r < 0.9:
        w = rng.random() < 0.3
        return ("W/" if w else "") + '"' + cur + '"', (w, cur)
    return rng.choice([cur or "x", '"' + cur, "W/", " ", 'w/"' + cur + '"', '"' + cur + '" ', '"a","b"']), "garbage"


# ---------------------------------------------------------------- dates
T0 = _dt.datetime(2026, 1, 1, 12, 0, 0, tzinfo=_dt.timezone.utc)


def fmt_date(rng, sec: int) -> str:
    import email.utils
    dt = EPOCH + _dt.timedelta(seconds=sec)
    q = rng.random()
    if q < 0.6:
        return email.utils.format_datetime(dt, usegmt=True)
    off = rng.choice([120, -330, 60, 0, 765, -1])
    return email.utils.format_datetime(dt.astimezone(_dt.timezone(_dt.timedelta(minutes=off))))


def gen_date_header(rng, lm_sec: int):
    """(text, seconds) or (text, 'garbage') when the text is not a date of the grammar"""
    r = rng.random()
    if r < 0.85:
        d = lm_sec + rng.choice([-86400, -3600, -1, 0, 0, 1, 3600, 86400])
        return fmt_date(rng, d), d
    return rng.choice(["yesterday", "", "0", "Thu, 32 Jan 2026 00:00:00 GMT", "2026-01-01T00:00:00Z", " "]), "garbage"


# ---------------------------------------------------------------- one make_conditional case
class Case:
    __slots__ = ("method", "range", "range_sem", "if_range", "if_range_sem", "ims", "ims_sem", "inm", "inm_sem", "im", "im_sem",
                 "etag", "etag_sem", "lm", "lm_sem", "accept", "clen", "status0", "preset_cl", "kind", "data", "chunks", "bs",
                 "via", "sf_path", "sf_etag", "sf_lm")

    def to_input(self):
        d = {}
        for k in self.__slots__:
            v = getattr(self, k)
            if k.endswith("_sem"):
                continue
            if isinstance(v, bytes):
                v = v.hex()
            elif k == "chunks" and v is not None:
                v = [x.hex() for x in v]
            d[k] = v
        d["sem"] = {k: getattr(self, k) for k in self.__slots__ if k.endswith("_sem")}
        return d


def case_from_input(d) -> "Case":
    c = Case()
    for k in Case.__slots__:
        setattr(c, k, None)
    for k, v in d.items():
        if k == "sem":
            continue
        if k == "data":
            v = bytes.fromhex(v)
        elif k == "chunks" and v is not None:
            v = [bytes.fromhex(x) for x in v]
        setattr(c, k, v)
    return case_with_sem(c, d.get("sem", {}))


def gen_case(rng, L=None, kind=None, bs=None, focus=None, cur=None, lm_sec=None) -> Case:
    c = Case()
    c.sf_path = c.sf_etag = c.sf_lm = None
    L = rng.randint(0, 40) if L is None else L
    c.data = bytes((37 * i + 11) % 251 for i in range(L))
    c.kind = kind or rng.choice(["list", "gen", "file", "file_noseek", "file_np", "list", "gen", "file", "fw_raw", "fw_buffered",
                                 "fw_seekattr", "fw_seekonly"] + (["fw_pipe"] if rng.random() < 0.3 else []))
    c.bs = bs or rng.randint(1, 9)
    c.chunks = chunkings(rng, c.data) if c.kind in ("list", "gen") else None
    c.method = rng.choice(["GET"] * 6 + ["HEAD"] * 2 + ["POST", "PUT", "get"])
    c.via = "make_conditional"
    cur = rng.choice(["abc", "abc", "xyz", "", "a-b", "abc", "xyz", "*"]) if cur is None else cur
    lm_sec = micros(T0) // 10 ** 6 + rng.randint(-5, 5) if lm_sec is None else lm_sec
    # response validators
    c.etag, c.etag_sem = gen_etag_header(rng, cur)
    if rng.random() < 0.7:
        c.lm, c.lm_sem = fmt_date(rng, lm_sec), lm_sec
    else:
        c.lm, c.lm_sem = None, None
    # request validators
    c.inm = c.inm_sem = c.im = c.im_sem = c.ims = c.ims_sem = c.if_range = c.if_range_sem = None
    r = rng.random()
    if r < 0.35:
        c.inm, c.inm_sem = gen_taglist(rng, cur)
    elif r < 0.6:
        c.im, c.im_sem = gen_taglist(rng, cur)
    elif r < 0.65:
        c.inm, c.inm_sem = gen_taglist(rng, cur)
        c.im, c.im_sem = gen_taglist(rng, cur)
    if rng.random() < 0.45:
        c.ims, c.ims_sem = gen_date_header(rng, lm_sec)
    # range
    c.range = c.range_sem = None
    if focus == "range" or rng.random() < 0.6:
        c.range, c.range_sem = gen_range(rng, L)
    if rng.random() < (0.35 if c.range is not None else 0.1):
        if rng.random() < 0.5:
            c.if_range, sem = gen_date_header(rng, lm_sec)
            c.if_range_sem = ("date", sem) if sem != "garbage" else "garbage"
        else:
            q = rng.random()
            if q < 0.8:
                w = rng.random() < 0.25
                t = cur if rng.random() < 0.7 else rng.choice(TAGS + ["*", "abc, xyz", "a,b"])
                c.if_range, c.if_range_sem = ("W/" if w else "") + '"' + t + '"', ("etag", w, t)
            else:
                c.if_range, c.if_range_sem = rng.choice(["", " ", "abc", '"abc', "W/", "*", '"a", "b"']), "garbage"
    c.accept = rng.choice([True] * 8 + [False, "bytes", "none", ""])
    c.clen = L if rng.random() < 0.93 else None
    c.status0 = 200 if rng.random() < 0.95 else rng.choice([201, 404])
    c.preset_cl = None
    if c.kind == "file" and rng.random() < 0.7 or rng.random() < 0.05:
        c.preset_cl = str(L)
    if focus == "range":
        c.method = rng.choice(["GET", "GET", "GET", "HEAD"])
        c.accept, c.clen = True, L
        c.inm = c.inm_sem = c.im = c.im_sem = c.ims = c.ims_sem = c.if_range = c.if_range_sem = None
    return c


def body_field(c: Case) -> str:
    if c.kind in ("list", "gen"):
        return "L:" + "/".join(hexs(x) for x in c.chunks)
    hs, fs, hk = WRAP_KINDS[c.kind]
    return f"W:{c.bs}:{hs}:{fs}:{hk}:{hexs(c.data)}"


def model_line(c: Case, parse_date) -> str:
    if c.via == "send_file":
        dates = []
        for h in (c.ims, c.if_range, c.lm):
            if h:
                d = parse_date(h)
                if d is not None:
                    dates.append(f"{cps(h)}={micros(d)}")
        return " ".join(["sf", cps(c.method), o(c.range), o(c.if_range), o(c.ims), o(c.inm), o(c.im), o(c.etag), o(c.lm),
                         hexs(c.data), ";".join(sorted(set(dates))) or "-"])
    dates = []
    for h in (c.ims, c.if_range, c.lm):
        if h:
            d = parse_date(h)
            if d is not None:
                dates.append(f"{cps(h)}={micros(d)}")
    acc = "T" if c.accept is True else "F" if c.accept is False else "S:" + cps(c.accept)
    return " ".join(["mc", cps(c.method), o(c.range), o(c.if_range), o(c.ims), o(c.inm), o(c.im), o(c.etag), o(c.lm), acc,
                     "~" if c.clen is None else str(c.clen), str(c.status0), o(c.preset_cl),
                     "1" if c.kind in WRAP_KINDS and c.kind != "file_np" else "0", body_field(c), ";".join(sorted(set(dates))) or "-"])


def build_response(c: Case, env):
    from werkzeug.wrappers import Response
    from werkzeug.wsgi import wrap_file
    if c.kind == "list":
        r = Response(list(c.chunks))
    elif c.kind == "gen":
        r = Response(x for x in list(c.chunks))
    elif c.kind == "file_np":
        r = Response(wrap_file(env, open_file(c.kind, c.data), c.bs))
    else:
        r = Response(wrap_file(env, open_file(c.kind, c.data), c.bs), direct_passthrough=True)
    r.status_code = c.status0
    if c.etag is not None:
        r.headers["ETag"] = c.etag
    if c.lm is not None:
        r.headers["Last-Modified"] = c.lm
    if c.preset_cl is not None:
        r.headers["Content-Length"] = c.preset_cl
    return r


def build_environ(c: Case):
    from werkzeug.test import EnvironBuilder
    hs = []
    for name, v in (("Range", c.range), ("If-Range", c.if_range), ("If-Modified-Since", c.ims), ("If-None-Match", c.inm),
                    ("If-Match", c.im)):
        if v is not None:
            hs.append((name, v))
    env = EnvironBuilder(method=c.method, headers=hs).get_environ()
    for name, v in hs:
        key = "HTTP_" + name.upper().replace("-", "_")
        if env.get(key) != v:          # the builder never rewrites a value; make sure of it
            env[key] = v
    return env


def send_file_call(c: Case, env, conditional=True):
    from werkzeug.utils import send_file
    src = c.sf_path if c.sf_path is not None else io.BytesIO(c.data)
    return send_file(src, env, mimetype="application/octet-stream", etag=c.sf_etag, last_modified=c.sf_lm,
                     conditional=conditional)


_OPEN: list = []


def run_impl(c: Case):
    """-> (canonical line, observation dict); whatever happens, the response (and its file) is closed afterwards"""
    try:
        return _run_impl(c)
    finally:
        while _OPEN:
            try:
                _OPEN.pop().close()
            except Exception:  # noqa: BLE001
                pass


def _run_impl(c: Case):
    from werkzeug.exceptions import RequestedRangeNotSatisfiable
    env = build_environ(c)
    try:
        if c.via == "send_file":
            r = with_timeout(send_file_call, 5, c, env)
        else:
            r = build_response(c, env)
            _OPEN.append(r)
            target = env
            if len(c.data) % 4 == 1:
                from werkzeug.wrappers import Request
                target = Request(env)
            with_timeout(r.make_conditional, 5, target, accept_ranges=c.accept, complete_length=c.clen)
    except RequestedRangeNotSatisfiable as e:
        hd = dict(e.get_headers())
        return (f"416 {'~' if e.length is None else e.length} cr={o(hd.get('Content-Range'))}",
                {"status": 416, "cr": hd.get("Content-Range"), "length": e.length})
    except ImplTimeout:
        return "timeout", {"status": "timeout"}
    except Exception as e:  # noqa: BLE001
        return "exn:" + type(e).__name__, {"status": "exn:" + type(e).__name__}
    cr, cl, ar = r.headers.get("Content-Range"), r.headers.get("Content-Length"), r.headers.get("Accept-Ranges")
    try:
        app_iter, status, headers = with_timeout(r.get_wsgi_response, 5, env)
        chunks = with_timeout(lambda: [bytes(x) for x in app_iter], 5)
        if hasattr(app_iter, "close"):
            app_iter.close()
        r.close()
    except ImplTimeout:
        return "timeout", {"status": "timeout"}
    except Exception as e:  # noqa: BLE001
        return "exn-body:" + type(e).__name__, {"status": "exn-body:" + type(e).__name__}
    wh = {k.lower(): v for k, v in headers}
    rh = {k.lower(): v for k, v in r.headers}
    line = (f"{r.status_code} cr={o(cr)} cl={o(cl)} ar={'~' if ar is None else 'S:' + cps(ar)} "
            f"body={'/'.join(hexs(x) for x in chunks)}")
    return line, {"status": r.status_code, "cr": cr, "cl": cl, "ar": ar, "chunks": chunks, "wsgi_status": status,
                  "wsgi_cl": wh.get("content-length"), "wsgi_cr": wh.get("content-range"), "resp_headers": rh, "wsgi_headers": wh}


# ---------------------------------------------------------------- impl-level oracles (the property, transcribed)
_CR = re.compile(r"bytes (\d+)-(\d+)/(\d+)\Z")
# RFC 2616 7.1 entity headers that a 304 must not carry (Expires and Content-Location may stay)
ENTITY_304 = {"allow", "content-encoding", "content-language", "content-length", "content-md5", "content-range", "content-type",
              "last-modified"}


def tag_weak_match(sem, cur):
    star, tags = sem
    return star or any(t == cur for _, t in tags)


def tag_admits(sem, cur):
    star, tags = sem
    return star or any(t == cur and not w for w, t in tags)


def oracle(chk: Check, c: Case, obs) -> None:
    L = len(c.data)
    st = obs["status"]
    inp = c.to_input()
    if isinstance(st, str):
        chk.fail("raises:" + st, f"make_conditional / the response iterator raises ({st}) for body kind {c.kind}", inp)
        return
    cond_method = c.method in ("GET", "HEAD")
    # ---- the headers around the status
    if st == 416:
        if c.clen == L and obs.get("cr") != f"bytes */{L}":
            chk.fail("416-content-range", f"416 with Content-Range {obs.get('cr')!r}, expected 'bytes */{L}'", inp)
    else:
        rh, wh = obs["resp_headers"], obs["wsgi_headers"]
        if c.via == "make_conditional":
            if rh.get("etag") != c.etag or rh.get("last-modified") != c.lm:
                chk.fail("headers:validator-lost", f"ETag / Last-Modified changed by make_conditional: {rh.get('etag')!r} "
                                                   f"{rh.get('last-modified')!r}", inp)
            if cond_method and "date" not in rh:
                chk.fail("headers:date-missing", "make_conditional did not set Date", inp)
            want_ar = None if st != 206 else ("bytes" if c.accept is True else str(c.accept))
            if obs["ar"] != want_ar:
                chk.fail("headers:accept-ranges", f"Accept-Ranges {obs['ar']!r} on status {st}, expected {want_ar!r}", inp)
        if st == 304:
            bad = sorted(set(wh) & ENTITY_304)
            if bad:
                chk.fail("headers:304-entity-header", f"304 sent with entity headers {bad}", inp)
            if c.etag is not None and wh.get("etag") != c.etag:
                chk.fail("headers:validator-lost", f"304 without the ETag {c.etag!r}", inp)
        elif st not in (204,) and not (100 <= st < 200):
            lost = sorted(k for k in rh if k not in wh)
            if lost:
                chk.fail("headers:stripped", f"status {st}: headers {lost} of the response are not sent", inp)
    # ---- the 206 clause: holds for whatever request produced the 206
    if st == 206:
        m = _CR.match(obs["cr"] or "")
        if not m:
            chk.fail("206-slice", f"206 with Content-Range {obs['cr']!r}", inp)
            return
        a, b, tot = (int(x) for x in m.groups())
        body = b"".join(obs["chunks"])
        if c.clen == L:
            if not (0 <= a <= b < L and tot == L):
                chk.fail("206-slice", f"Content-Range {obs['cr']} not inside a resource of {L} bytes", inp)
            if obs["cl"] != str(b - a + 1) or obs["wsgi_cl"] != str(b - a + 1) or obs["wsgi_cr"] != obs["cr"]:
                chk.fail("206-slice", f"Content-Length {obs['cl']!r}/{obs['wsgi_cl']!r} does not match Content-Range {obs['cr']}", inp)
            if c.method != "HEAD" and body != c.data[a:b + 1]:
                chk.fail("206-slice", f"206 {obs['cr']} carries {body!r}, the declared slice is {c.data[a:b + 1]!r}", inp)
            if c.method == "HEAD" and body:
                chk.fail("206-slice", "HEAD response with a body", inp)
            if any(len(x) == 0 for x in obs["chunks"]):
                chk.fail("206-slice", "empty chunk yielded by the range wrapper", inp)
    elif st != 416 and c.method not in ("HEAD",) and st not in (304,) and not (100 <= st < 200) and st != 204:
        if b"".join(obs["chunks"]) != c.data:
            chk.fail("200-body-incomplete", f"status {st} without the complete body", inp)
        if obs["cr"] is not None:
            chk.fail("200-body-incomplete", f"status {st} with Content-Range {obs['cr']!r}", inp)

    # ---- which of 206 / 416 / ignored the property demands
    sem_known = c.range is None or c.range_sem[0] != "garbage"
    ifr = c.if_range_sem
    cur = c.etag_sem[1] if isinstance(c.etag_sem, tuple) else None
    resp_weak = c.etag_sem[0] if isinstance(c.etag_sem, tuple) else None
    dates_known = c.ims_sem != "garbage" and c.etag_sem != "garbage"
    if c.if_range is None:
        ifr_ok = True
    elif ifr == "garbage" or c.etag_sem == "garbage":
        ifr_ok = None
    elif ifr[0] == "date":
        ifr_ok = c.lm_sem is not None and c.lm_sem <= ifr[1]
    else:
        # strong comparison (RFC 7233 3.2): both strong and the same opaque tag
        ifr_ok = cur is not None and not ifr[1] and not resp_weak and ifr[2] == cur
    applicable = cond_method and bool(c.accept) and c.clen is not None and c.clen > 0 and c.range is not None
    if c.clen is not None and c.clen != L:
        return
    mixing = c.if_range is not None and (c.inm is not None or c.im is not None
                                         or (isinstance(ifr, tuple) and ifr[0] == "etag" and cur is None and c.ims is not None))

    def range_consistent():
        """the answer is what evaluating the Range header alone gives (used to keep the known-finding keys specific)"""
        if not sem_known:
            return True
        w = range_expect(c.range_sem, L)
        if w is None:
            return True
        if w[0] == "416":
            return st == 416
        ok206 = st == 206 and (a, b) == (w[1], w[2])
        return ok206 if w[0] == "206" else (ok206 or st == 416)

    def known_processable():
        """what the listed findings say _is_range_request_processable does when If-Range meets other validators:
        None when the request is outside those findings"""
        if not isinstance(ifr, tuple):
            return None
        if ifr[0] == "date":
            since = ifr[1]
        elif c.ims_sem == "garbage":
            return None
        else:
            since = c.ims_sem
        u0 = since is not None and c.lm_sem is not None and c.lm_sem <= since
        if cur is None:
            return u0
        if ifr[0] == "etag":
            return ifr[2] == cur                      # weakness flags dropped
        if c.im is not None:
            return None if c.im_sem is None else not tag_admits(c.im_sem, cur)
        if c.inm is not None:
            return None if c.inm_sem is None else tag_weak_match(c.inm_sem, cur)
        return u0

    if applicable and ifr_ok and sem_known:
        want = range_expect(c.range_sem, L)
        dev = None
        if want[0] == "416" and st != 416:
            dev = ("416-expected", f"unparsable / unsatisfiable / multi / other-unit Range {c.range!r} answered {st}")
        elif want[0] == "206" and st == 416:
            dev = ("416-unexpected", f"satisfiable Range {c.range!r} on {L} bytes answered 416")
        elif st == 206 and (a, b) != (want[1], want[2]):
            dev = ("206-range-not-asked", f"Range {c.range!r} on {L} bytes answered {obs['cr']}")
        if dev:
            # listed finding: the other validators made the code ignore the Range although If-Range matches - only when
            # that is exactly what happened (range ignored, and the finding's own formula says so)
            if mixing and known_processable() in (False, None) and st not in (206, 416):
                chk.fail("if-range-overridden-by-other-validators", dev[1] + f" (If-Range {c.if_range!r} matches; the other "
                         "validators decided)", inp)
            else:
                chk.fail(dev[0], dev[1], inp)
    elif (not applicable) or ifr_ok is False:
        if st in (206, 416):
            if ifr_ok is False and c.if_range is not None and applicable:
                weak_involved = isinstance(ifr, tuple) and ifr[0] == "etag" and (ifr[1] or resp_weak) and ifr[2] == cur
                consistent = range_consistent()
                if weak_involved and consistent:
                    key = "if-range-weak-comparison"
                elif mixing and known_processable() in (True, None) and consistent:
                    key = "if-range-overridden-by-other-validators"
                else:
                    key = "if-range-failed-but-range-served"
                chk.fail(key, f"If-Range {c.if_range!r} does not match the current representation (ETag {c.etag!r}, "
                              f"Last-Modified {c.lm!r}) but the answer is {st}", inp)
            else:
                chk.fail("range-not-ignored", f"Range must be ignored here but the answer is {st}", inp)

    # ---- 304 / 412
    if not cond_method:
        if st in (304, 412):
            chk.fail("304-unsound", f"{c.method} answered {st}", inp)
        return
    if not dates_known or c.inm_sem is None and c.inm is not None or c.im_sem is None and c.im is not None:
        return
    if c.inm is not None and c.im is not None:
        return                                   # one of the two per request
    has_etag = cur is not None
    date_match = (c.ims_sem is not None and c.lm_sem is not None and c.lm_sem <= c.ims_sem)
    if has_etag and c.inm is not None:
        match = tag_weak_match(c.inm_sem, cur)
    else:
        match = date_match
    if st == 304 and not match:
        chk.fail("304-unsound", f"304 although the validators do not match (ETag {c.etag!r}, If-None-Match {c.inm!r}, "
                                f"Last-Modified {c.lm!r}, If-Modified-Since {c.ims!r})", inp)
    if st == 412:
        if c.im is None or not has_etag:
            if c.im is None:
                chk.fail("412-unsound", "412 without If-Match", inp)
        elif tag_admits(c.im_sem, cur):
            chk.fail("412-unsound", f"412 although If-Match {c.im!r} admits the current ETag {c.etag!r}", inp)
    if match and st != 304:
        if c.im is not None and not has_etag:
            return                               # If-Match only against responses that carry an ETag
        if st in (206, 416):
            # listed finding: the Range header is evaluated before the preconditions - only when the answer is what the
            # Range header alone gives
            if range_consistent() and (ifr_ok is not False):
                chk.fail("304-incomplete:range-served-before-preconditions",
                         f"validators match but the Range header is answered first ({st}) instead of 304", inp)
            elif ifr_ok is not False:
                chk.fail("304-incomplete:range-answered-wrongly", f"validators match, answered {st} {obs.get('cr')!r}", inp)
        elif c.im is not None and tag_admits(c.im_sem, cur):
            # listed finding: an admitted If-Match masks the dates - only when the answer is the untouched status
            if st == c.status0:
                chk.fail("304-incomplete:if-match-masks-if-modified-since",
                         f"If-Match {c.im!r} admits and If-Modified-Since matches, answered {st} instead of 304", inp)
            else:
                chk.fail("304-incomplete:if-match-admitted-unexpected-status",
                         f"If-Match {c.im!r} admits and If-Modified-Since matches, answered {st}", inp)
        elif c.im is not None:
            pass                                 # If-Match fails: 412 is the right answer
        else:
            chk.fail("304-incomplete", f"validators match but the answer is {st}", inp)


# ---------------------------------------------------------------- corpus: known / fixed findings, replayed first
def corpus_cases() -> list[Case]:
    OLD, NEW = "Thu, 01 Jan 2026 00:00:00 GMT", "Fri, 02 Jan 2026 00:00:00 GMT"
    old_s = micros(_dt.datetime(2026, 1, 1, tzinfo=_dt.timezone.utc)) // 10 ** 6
    new_s = old_s + 86400

    def mk(**kw):
        c = Case()
        for k in Case.__slots__:
            setattr(c, k, None)
        c.method, c.accept, c.status0, c.kind, c.bs, c.via = "GET", True, 200, "list", 4, "make_conditional"
        c.data = b"abcd"
        c.chunks = [b"abcd"]
        for k, v in kw.items():
            setattr(c, k, v)
        c.clen = len(c.data) if "clen" not in kw else kw["clen"]
        return c
    E = ('"abc"', (False, "abc"))
    out = [
        # fixed: If-Match: * answered 412
        mk(im="*", im_sem=(True, []), etag=E[0], etag_sem=E[1]),
        # fixed: empty chunk ended a 206 early
        mk(range="bytes=0-3", range_sem=("single", 0, 3), chunks=[b"ab", b"", b"cd"]),
        mk(range="bytes=1-3", range_sem=("single", 1, 3), chunks=[b"", b"ab", b"", b"", b"cd", b""], kind="gen"),
        # fixed: bytes=-0 answered with the whole body as 206
        mk(range="bytes=-0", range_sem=("malformed",)),
        # fixed: empty quoted tag became None
        mk(inm='""', inm_sem=(False, [(False, "")]), etag='""', etag_sem=(False, "")),
        mk(im='""', im_sem=(False, [(False, "")]), etag='""', etag_sem=(False, "")),
        # fixed: a signed last-byte-pos was accepted
        mk(range="bytes=0--0", range_sem=("malformed",)),
        # the quoted tag "*" is an ordinary entity tag, not the wildcard
        mk(inm='"*"', inm_sem=(False, [(False, "*")]), etag=E[0], etag_sem=E[1]),
        mk(inm='"a", W/"*"', inm_sem=(False, [(False, "a"), (True, "*")]), etag=E[0], etag_sem=E[1]),
        mk(im='"*"', im_sem=(False, [(False, "*")]), etag=E[0], etag_sem=E[1]),
        mk(inm='"*"', inm_sem=(False, [(False, "*")]), etag='"*"', etag_sem=(False, "*")),
        # empty list elements do not hide the tags after them
        mk(inm='"v1", , "abc"', inm_sem=(False, [(False, "v1"), (False, "abc")]), etag=E[0], etag_sem=E[1]),
        mk(inm=',"abc"', inm_sem=(False, [(False, "abc")]), etag=E[0], etag_sem=E[1]),
        mk(im='"a",,"abc"', im_sem=(False, [(False, "a"), (False, "abc")]), etag=E[0], etag_sem=E[1]),
        # not pinned: over-long suffix
        mk(range="bytes=-5", range_sem=("suffix", 5), data=b"abc", chunks=[b"abc"]),
        # known: failed If-Range overridden by a matching If-None-Match / a failing If-Match / If-Modified-Since
        mk(range="bytes=0-1", range_sem=("single", 0, 1), if_range=OLD, if_range_sem=("date", old_s), inm='"abc"',
           inm_sem=(False, [(False, "abc")]), etag=E[0], etag_sem=E[1], lm=NEW, lm_sem=new_s),
        mk(range="bytes=0-1", range_sem=("single", 0, 1), if_range=OLD, if_range_sem=("date", old_s), im='"zzz"',
           im_sem=(False, [(False, "zzz")]), etag=E[0], etag_sem=E[1], lm=NEW, lm_sem=new_s),
        mk(range="bytes=0-1", range_sem=("single", 0, 1), if_range='"abc"', if_range_sem=("etag", False, "abc"), ims=NEW,
           ims_sem=new_s, lm=OLD, lm_sem=old_s),
        # known: weak If-Range tag compared weakly
        mk(range="bytes=0-1", range_sem=("single", 0, 1), if_range='W/"abc"', if_range_sem=("etag", True, "abc"),
           etag=E[0], etag_sem=E[1]),
        # known: admitted If-Match masks a matching If-Modified-Since
        mk(im='"abc"', im_sem=(False, [(False, "abc")]), ims=NEW, ims_sem=new_s, etag=E[0], etag_sem=E[1], lm=OLD, lm_sem=old_s),
        # known: a satisfiable Range is served although If-None-Match matches
        mk(range="bytes=0-1", range_sem=("single", 0, 1), inm='"abc"', inm_sem=(False, [(False, "abc")]), etag=E[0], etag_sem=E[1]),
        # plain If-Range failure and success
        mk(range="bytes=0-1", range_sem=("single", 0, 1), if_range=OLD, if_range_sem=("date", old_s), etag=E[0], etag_sem=E[1],
           lm=NEW, lm_sem=new_s),
        mk(range="bytes=0-1", range_sem=("single", 0, 1), if_range=NEW, if_range_sem=("date", new_s), etag=E[0], etag_sem=E[1],
           lm=OLD, lm_sem=old_s),
        mk(range="bytes=2-", range_sem=("single", 2, None), kind="file", bs=3),
        mk(range="bytes=0-0", range_sem=("single", 0, 0), data=b"", chunks=[], clen=0),
    ]
    d = os.path.join(os.path.dirname(os.path.dirname(os.path.abspath(__file__))), "corpus", "C11")
    if os.path.isdir(d):
        import json
        for fn in sorted(os.listdir(d)):
            if fn.endswith(".json"):
                with open(os.path.join(d, fn)) as f:
                    rep = json.load(f)
                try:
                    out.append(case_from_input(rep["input"]))
                except Exception:  # noqa: BLE001
                    pass
    return out


def case_with_sem(c: Case, sem: dict) -> Case:
    def tup(x):
        if isinstance(x, list):
            return tuple(tup(y) for y in x)
        return x
    for k in ("range_sem", "if_range_sem", "ims_sem", "inm_sem", "im_sem", "etag_sem", "lm_sem"):
        v = sem.get(k)
        if k in ("inm_sem", "im_sem") and v is not None:
            v = (v[0], [tuple(t) for t in v[1]])
        elif v is not None:
            v = tup(v)
        setattr(c, k, v)
    if c.range is not None and c.range_sem is None:
        c.range_sem = ("garbage",)
    for h, k in (("if_range", "if_range_sem"), ("ims", "ims_sem"), ("etag", "etag_sem")):
        if getattr(c, h) is not None and getattr(c, k) is None:
            setattr(c, k, "garbage")
    return c


# ---------------------------------------------------------------- the run
def run(chk: Check) -> None:
    import werkzeug.http as whttp
    import werkzeug.sansio.http as shttp
    import werkzeug.datastructures as ds
    from werkzeug.wsgi import _RangeWrapper, FileWrapper

    rng = chk.rng
    quick = chk.tier == "quick"
    lines: list[str] = []
    impl: list[str] = []
    tags: list[str] = []

    def add(line, res, tag):
        lines.append(line)
        impl.append(res)
        tags.append(tag)

    # ------------------------------------------------ (1) make_conditional end to end
    cases = corpus_cases()
    n_corpus = len(cases)
    # systematic: every resource length x a fixed family of Range specs x body kinds x block sizes
    kinds = ["list", "gen", "file", "file_noseek", "file_np", "fw_raw", "fw_buffered", "fw_seekattr", "fw_seekonly"]
    for L in range(0, 41):
        specs = [("bytes=0-", ("single", 0, None)), (f"bytes=0-{L}", ("single", 0, L)), (f"bytes={L}-", ("single", L, None)),
                 (f"bytes=-{max(L, 1)}", ("suffix", max(L, 1))), (f"bytes=-{L + 1}", ("suffix", L + 1)), ("bytes=-1", ("suffix", 1)),
                 (f"bytes={max(L - 1, 0)}-{max(L - 1, 0)}", ("single", max(L - 1, 0), max(L - 1, 0))),
                 (f"bytes={L // 3}-{2 * L // 3}", ("single", L // 3, 2 * L // 3)), (f"bytes={L // 2}-", ("single", L // 2, None)),
                 (f"bytes=1-{L + 5}", ("single", 1, L + 5)), ("bytes=0-0,2-3", ("multi",)), (f"items=0-{L}", ("unit",)),
                 (f"bytes={L + 1}-{L}", ("malformed",))]
        for text, sem in specs:
            for kind in kinds:
                for bs in (range(1, 10) if not quick else [rng.randint(1, 9)]):
                    c = gen_case(rng, L=L, kind=kind, bs=bs, focus="range")
                    c.range, c.range_sem = text, sem
                    cases.append(c)
    n_sys = len(cases) - n_corpus
    n_rand = 30000 if quick else 400000
    for i in range(n_rand):
        cases.append(gen_case(rng, focus="range" if i % 4 == 0 else None))
    seen_known: dict[str, int] = {}
    for idx, c in enumerate(cases):
        res, obs = run_impl(c)
        before = len(chk.failures)
        oracle(chk, c, obs)
        for f in chk.failures[before:]:
            seen_known[f["key"]] = seen_known.get(f["key"], 0) + 1
        # keep one representative per key (the first, i.e. the corpus one), drop the repeats
        if len(chk.failures) > before:
            keep = []
            have = {f["key"] for f in chk.failures[:before]}
            for f in chk.failures[before:]:
                if f["key"] not in have or f["key"] not in KNOWN_KEYS:
                    keep.append(f)
                    have.add(f["key"])
            del chk.failures[before:]
            chk.failures.extend(keep[:3])
        add(model_line(c, whttp.parse_date), res, "mc")
        st = obs["status"]
        chk.count(f"mc:status:{st}")
        chk.count(f"mc:body:{c.kind}")
        if c.range is not None:
            chk.count(f"mc:range:{c.range_sem[0]}")
        chk.case(("mc", lines[-1]), nontrivial=(c.range is not None or c.inm is not None or c.im is not None or c.ims is not None),
                 sample={"op": "make_conditional", "method": c.method, "range": c.range, "if_none_match": c.inm, "etag": c.etag,
                         "body": c.kind, "length": len(c.data), "impl": res[:90]})
    for k, v in seen_known.items():
        chk.count(f"oracle:{k}", v)
    chk.count("mc:corpus", n_corpus)
    chk.count("mc:systematic", n_sys)
    chk.count("mc:random", n_rand)

    # ------------------------------------------------ (2) send_file (utils.send_file -> make_conditional)
    run_send_file(chk, add)

    # ------------------------------------------------ (3) the functions directly, model vs implementation
    # parse_etags / unquote_etag
    n_t = 3000 if quick else 60000
    tag_texts = ['"v1", , "v2"', ',"v2"', '"a",,"b"', '"a" ,\t, W/"b"', ', , "a"', ',,', '"a", ,', '"*"', 'W/"*"', '"a", "*"', '"*", "a"', 'W/"*", *', '""', 'W/""', '"a" b, "c"', 'W/"a", "b" ,c', '"a"  ', ", abc", "W/*", '"*"', "*", "w/", 'W/"x', '"a","b', "a b , c",
                 "\x1f,a", "a\x0b", '  "a"', '"a" "b"', 'W/W/"a"', '"a",', ",", " ", '*, "a"', '"a", *', "", " , a", '"'] 
    atoms = ['"', "W/", "w/", ",", " ", "\t", "*", "a", "b", "abc", '"abc"', 'W/"abc"', ", ", "\x1f", " ", " ", "/", "W", "\\", "''"]
    for _ in range(n_t):
        if rng.random() < 0.5:
            tag_texts.append(gen_taglist(rng, rng.choice(TAGS))[0])
        else:
            tag_texts.append("".join(rng.choice(atoms) for _ in range(rng.randint(0, 9))))
    for t in tag_texts:
        try:
            e = with_timeout(whttp.parse_etags, 2, t)
            res = "s=%s w=%s star=%s" % (";".join(sorted(cps(x) for x in e._strong)), ";".join(sorted(cps(x) for x in e._weak)),
                                         "true" if e.star_tag else "false")
        except ImplTimeout:
            res = "timeout"
        except Exception as ex:  # noqa: BLE001
            res = "exn:" + type(ex).__name__
        add(f"petags {cps(t)}", res, "petags")
        chk.case(("petags", t), nontrivial=len(t) > 0)
        u = whttp.unquote_etag(t)
        add(f"unq {cps(t)}", f"{o(u[0])} {'~' if u[1] is None else str(u[1]).lower()}", "unq")
    chk.count("parse_etags", len(tag_texts))
    # parse_range_header
    n_r = 4000 if quick else 80000
    rtexts = ["bytes=0-0", "bytes=-5", "bytes=5-", "bytes=1-2,4-5", "bytes=1-2,2-3", "bytes=1-2,3-4", "bytes=-5,1-2", "bytes=1-,2-3",
              "bytes=0--1", "bytes=1-١", "bytes= 1 - 2 ", "BYTES =1-2", "bytes=1-2=3", "=1-2", "bytes=", "bytes=1-2,", "bytes=--5",
              "bytes=-", "bytes=+1-2", "bytes=1_0-20", "bytes=\x1f1-2", "bytes=5-2", "bytes=00-01", "bytes=-5,-6", "bytes=-0", "",
              "bytes= 1 - 2", "bytes=1-2,-3", "bytes=-0005", "bytes=3-2", "KBYTES=1-2"]
    for _ in range(n_r):
        rtexts.append(gen_range(rng, rng.randint(0, 40))[0])
    ratoms = ["bytes", "=", "-", ",", " ", "0", "1", "5", "9", "12", "\t", "x", " ", "\x1f", "+", "_", "١"]
    for _ in range(n_r // 2):
        rtexts.append("bytes=" + "".join(rng.choice(ratoms) for _ in range(rng.randint(0, 8))))
    for t in rtexts:
        try:
            r = whttp.parse_range_header(t)
            res = "none" if r is None else cps(r.units) + " " + ";".join(f"{a}:{'~' if b is None else b}" for a, b in r.ranges)
        except Exception as ex:  # noqa: BLE001
            res = "exn:" + type(ex).__name__
        add(f"prange {cps(t)}", res, "prange")
        chk.case(("prange", t), nontrivial=len(t) > 0)
    chk.count("parse_range_header", len(rtexts))
    # is_byte_range_valid: full product over a small grid
    grid = [None, -2, -1, 0, 1, 2, 3, 5]
    for a in grid:
        for b in grid:
            for l in grid:
                try:
                    res = str(bool(whttp.is_byte_range_valid(a, b, l))).lower()
                except TypeError:
                    res = "exn:TypeError"

                def z(x):
                    return "~" if x is None else str(x)
                add(f"ibrv {z(a)} {z(b)} {z(l)}", res, "ibrv")
                chk.case(("ibrv", a, b, l))
    chk.count("is_byte_range_valid(exhaustive grid)", len(grid) ** 3)
    # Range.range_for_length / to_content_range_header on Range objects of every shape the constructor admits
    n_f = 4000 if quick else 60000
    for i in range(n_f):
        units = rng.choice(["bytes"] * 6 + ["items", "", "Bytes"])
        nr = rng.choice([0, 1, 1, 1, 1, 2])
        rs = []
        for _ in range(nr):
            a = rng.randint(-8, 12)
            b = rng.choice([None, None, a + rng.randint(-2, 9)])
            rs.append((a, b))
        length = rng.choice([None] + list(range(0, 13)) + [-1])
        try:
            robj = ds.Range(units, rs)
        except ValueError:
            continue
        try:
            t = robj.range_for_length(length)
            res = "none" if t is None else f"{t[0]}:{t[1]}"
        except TypeError:
            res = "exn:TypeError"
        try:
            h = robj.to_content_range_header(length)
            res += " " + o(h)
        except TypeError:
            res += " exn:TypeError"
        add("rfl %s %s %s" % (cps(units), ";".join(f"{a}:{'~' if b is None else b}" for a, b in rs) or "-",
                              "~" if length is None else length), res, "rfl")
        chk.case(("rfl", units, tuple(rs), length))
    # is_resource_modified with datetime last_modified (sub-second, naive, non-UTC)
    n_m = 5000 if quick else 100000
    for i in range(n_m):
        cur = rng.choice(["abc", "xyz", ""])
        base = micros(T0) + rng.randint(-3, 3) * 10 ** 6
        lm_us = base + rng.choice([0, 0, 1, 499999, 999999])
        lm_dt = EPOCH + _dt.timedelta(microseconds=lm_us)
        q = rng.random()
        if q < 0.3:
            lm_arg = lm_dt.replace(tzinfo=None)
        elif q < 0.6:
            lm_arg = lm_dt.astimezone(_dt.timezone(_dt.timedelta(minutes=rng.choice([120, -330, 45]))))
        elif q < 0.8:
            lm_arg = lm_dt
        elif q < 0.9:
            lm_arg = fmt_date(rng, lm_us // 10 ** 6)
        else:
            lm_arg = None
        etag_h, _ = gen_etag_header(rng, cur)
        inm = gen_taglist(rng, cur)[0] if rng.random() < 0.4 else None
        im = gen_taglist(rng, cur)[0] if rng.random() < 0.3 else None
        ims = gen_date_header(rng, lm_us // 10 ** 6)[0] if rng.random() < 0.6 else None
        rh = rng.choice([None, "bytes=0-1"])
        ifr = rng.choice([None, None, gen_date_header(rng, lm_us // 10 ** 6)[0], '"' + cur + '"', 'W/"' + cur + '"', "", "x"])
        ign = rng.random() < 0.5
        how = rng.random()
        try:
            if how < 0.15 and etag_h is not None:
                # data= : the etag is generate_etag(data) (sha1, an input of the model)
                blob = bytes(rng.randint(0, 255) for _ in range(rng.randint(0, 6)))
                etag_h = whttp.generate_etag(blob)
                mod = shttp.is_resource_modified(rh, ifr, ims, inm, im, None, blob, lm_arg, ign)
            elif how < 0.45:
                # through the WSGI-level function: environ keys -> keyword arguments
                envd = {k: v for k, v in (("HTTP_RANGE", rh), ("HTTP_IF_RANGE", ifr), ("HTTP_IF_MODIFIED_SINCE", ims),
                                          ("HTTP_IF_NONE_MATCH", inm), ("HTTP_IF_MATCH", im)) if v is not None}
                mod = whttp.is_resource_modified(envd, etag_h, None, lm_arg, ign)
            else:
                mod = shttp.is_resource_modified(rh, ifr, ims, inm, im, etag_h, None, lm_arg, ign)
            res = "modified" if mod else "unmodified"
        except Exception as ex:  # noqa: BLE001
            res = "exn:" + type(ex).__name__
        dates = []
        for h in (ims, ifr, lm_arg if isinstance(lm_arg, str) else None):
            if h:
                d = whttp.parse_date(h)
                if d is not None:
                    dates.append(f"{cps(h)}={micros(d)}")
        lmf = "~" if lm_arg is None else cps(lm_arg) if isinstance(lm_arg, str) else f"D:{micros(lm_arg)}"
        add(" ".join(["irm", o(rh), o(ifr), o(ims), o(inm), o(im), o(etag_h), lmf, "1" if ign else "0",
                      ";".join(sorted(set(dates))) or "-"]), res, "irm")
        chk.case(("irm", lines[-1]))
        # the one-second rule, straight from the property: with only dates in play the answer is floor(lm) <= ims
        if inm is None and im is None and (ign or rh is None or ifr is None) and isinstance(lm_arg, _dt.datetime) and ims:
            d = whttp.parse_date(ims)
            if d is not None and etag_h is None:
                want = "unmodified" if (lm_us // 10 ** 6) * 10 ** 6 <= micros(d) else "modified"
                if res != want:
                    chk.fail("one-second-resolution", f"is_resource_modified says {res} for last_modified {lm_arg!r} and "
                             f"If-Modified-Since {ims!r}", {"last_modified": repr(lm_arg), "if_modified_since": ims})
    # a naive last_modified is UTC whatever the process time zone is: a slice of the date cases under other zones
    import time as _time
    old_tz = os.environ.get("TZ")
    try:
        for tzname in ("JST-9", "EST5EDT"):
            os.environ["TZ"] = tzname
            _time.tzset()
            for i in range(150 if quick else 2000):
                base = micros(T0) + rng.randint(-3, 3) * 10 ** 6
                lm_us = base + rng.choice([0, 0, 1, 999999])
                aware = EPOCH + _dt.timedelta(microseconds=lm_us)
                naive = aware.replace(tzinfo=None)
                ims, ims_sec = gen_date_header(rng, lm_us // 10 ** 6)
                if ims_sec == "garbage":
                    continue
                if i % 2 == 0:
                    # the same instant written with the zone -0000 (email.utils gives a naive datetime for it; it is UTC)
                    import email.utils as _eu
                    ims = _eu.format_datetime(EPOCH + _dt.timedelta(seconds=ims_sec)).replace("+0000", "-0000")
                how = i % 3
                try:
                    if how == 0:
                        got = shttp.is_resource_modified(None, None, ims, None, None, None, None, naive, True)
                        ref = shttp.is_resource_modified(None, None, ims, None, None, None, None, aware, True)
                    elif how == 1:
                        envd = {"HTTP_IF_MODIFIED_SINCE": ims}
                        got = whttp.is_resource_modified(envd, None, None, naive)
                        ref = whttp.is_resource_modified(envd, None, None, aware)
                    else:
                        # If-Range carrying the date, with a Range header
                        got = shttp.is_resource_modified("bytes=0-1", ims, None, None, None, None, None, naive, False)
                        ref = shttp.is_resource_modified("bytes=0-1", ims, None, None, None, None, None, aware, False)
                    res = "modified" if got else "unmodified"
                except Exception as ex:  # noqa: BLE001
                    got = ref = None
                    res = "exn:" + type(ex).__name__
                d = whttp.parse_date(ims)
                dates = f"{cps(ims)}={micros(d)}" if d is not None else "-"
                if how == 2:
                    add(" ".join(["irm", cps("bytes=0-1"), cps(ims), "~", "~", "~", "~", f"D:{lm_us}", "0", dates]), res, "irm")
                else:
                    add(" ".join(["irm", "~", "~", cps(ims), "~", "~", "~", f"D:{lm_us}", "1", dates]), res, "irm")
                chk.case(("irm-tz", tzname, lines[-1]))
                want = not ((lm_us // 10 ** 6) <= ims_sec)
                if got is None or got != ref or got != want:
                    chk.fail("date-minus-0000-local-time" if ims.endswith("-0000") and got == ref else "naive-last-modified-local-time",
                             f"TZ={tzname}: is_resource_modified with the naive last_modified {naive!r} (UTC by contract) and "
                             f"{'If-Range' if how == 2 else 'If-Modified-Since'} {ims!r} says {res}; the same instant given as an "
                             f"aware datetime says {'modified' if ref else 'unmodified'}, the property says "
                             f"{'modified' if want else 'unmodified'}",
                             {"tz": tzname, "last_modified_naive_utc": naive.isoformat(), "date_header": ims, "call": how})
                # Response.last_modified = naive, then make_conditional
                if i % 5 == 0:
                    from werkzeug.wrappers import Response as _R3
                    from werkzeug.test import EnvironBuilder as _EB3
                    rr = _R3(b"abcd")
                    rr.last_modified = naive
                    rr.make_conditional(_EB3(headers=[("If-Modified-Since", ims)]).get_environ())
                    if (rr.status_code == 304) != (not want):
                        chk.fail("naive-last-modified-local-time",
                                 f"TZ={tzname}: Response.last_modified = {naive!r}, If-Modified-Since {ims!r} answered {rr.status_code}",
                                 {"tz": tzname, "last_modified_naive_utc": naive.isoformat(), "date_header": ims, "call": "response"})
            chk.count(f"naive-datetime-under-TZ={tzname}", 150 if quick else 2000)
    finally:
        if old_tz is None:
            os.environ.pop("TZ", None)
        else:
            os.environ["TZ"] = old_tz
        _time.tzset()
    # _RangeWrapper directly: every chunking of short bodies (exhaustive) + random, ranges also beyond the body
    def rw_case(kind, data, chunks, bs, start, ln):
        if kind == "list":
            it, field = list(chunks), "L:" + "/".join(hexs(x) for x in chunks)
        elif kind == "gen":
            it, field = (x for x in list(chunks)), "L:" + "/".join(hexs(x) for x in chunks)
        else:
            hs, fs, hk = WRAP_KINDS[kind]
            it, field = FileWrapper(open_file(kind, data), bs), f"W:{bs}:{hs}:{fs}:{hk}:{hexs(data)}"
        try:
            got = with_timeout(lambda: list(_RangeWrapper(it, start, ln)), 3)
            if hasattr(it, "close"):
                it.close()
            res = "/".join(hexs(x) for x in got)
        except ImplTimeout:
            got, res = None, "timeout"
        except Exception as ex:  # noqa: BLE001
            got, res = None, "exn:" + type(ex).__name__
        add(f"rw {field} {start} {ln}", res, "rw")
        chk.case(("rw", field, start, ln), nontrivial=ln > 0)
        # oracle: inside the body the wrapper yields exactly data[start:start+ln], in non-empty chunks
        if ln > 0 and start + ln <= len(data):
            if got is None or b"".join(got) != data[start:start + ln] or any(len(x) == 0 for x in got):
                chk.fail("206-slice", f"_RangeWrapper({kind}, start={start}, length={ln}) yields {got!r}, "
                                      f"expected the bytes {data[start:start + ln]!r}",
                         {"kind": kind, "data": data.hex(), "chunks": [x.hex() for x in chunks] if chunks else None, "bs": bs,
                          "start": start, "length": ln, "via": "_RangeWrapper"})
    nrw = 0
    for n in range(0, 5):
        data = bytes(range(65, 65 + n))
        # all compositions of data into chunks, with up to one empty chunk inserted anywhere
        comps = [[]]
        if n:
            comps = []
            for mask in range(1 << (n - 1)):
                cur_c, out = bytes([data[0]]), []
                for i in range(1, n):
                    if mask >> (i - 1) & 1:
                        out.append(cur_c)
                        cur_c = b""
                    cur_c += bytes([data[i]])
                out.append(cur_c)
                comps.append(out)
        allc = []
        for comp in comps:
            allc.append(comp)
            for i in range(len(comp) + 1):
                allc.append(comp[:i] + [b""] + comp[i:])
        for comp in allc:
            for start in range(0, n + 1):
                for ln in range(0, n - start + 2):
                    rw_case("list", data, comp, 0, start, ln)
                    nrw += 1
        for bs in range(1, n + 2):
            for start in range(0, n + 1):
                for ln in range(0, n - start + 2):
                    for k in ("file", "file_noseek", "fw_raw", "fw_buffered", "fw_seekattr", "fw_seekonly"):
                        rw_case(k, data, None, bs, start, ln)
                        nrw += 1
    chk.count("_RangeWrapper(exhaustive: bodies up to 4 bytes, every chunking with one optional empty chunk, every start/length)", nrw)
    n_w = 4000 if quick else 80000
    for _ in range(n_w):
        L = rng.randint(0, 40)
        data = bytes((37 * i + 11) % 251 for i in range(L))
        kind = rng.choice(["list", "gen", "file", "file_noseek", "fw_raw", "fw_buffered", "fw_seekattr", "fw_seekonly"]
                          + (["fw_pipe"] if rng.random() < 0.2 else []))
        start = rng.randint(0, L + 2)
        ln = rng.choice([0, 1, 2, rng.randint(0, L + 3), max(L - start, 0)])
        rw_case(kind, data, chunkings(rng, data), rng.randint(1, 9), start, ln)
    chk.count("_RangeWrapper(random)", n_w)
    # set_etag / get_etag / quote_etag / unquote_etag keep the tag and the weak flag; freeze() adds the etag of the data
    from werkzeug.wrappers import Response as _R2
    from werkzeug.test import EnvironBuilder as _EB2
    for i in range(300 if quick else 3000):
        t = "".join(rng.choice("abcXYZ019-_.*/ W") for _ in range(rng.randint(0, 6)))
        w = rng.random() < 0.4
        rr = _R2(b"x")
        rr.set_etag(t, weak=w)
        hv = rr.headers["ETag"]
        if rr.get_etag() != (t, w) and t == t.strip() and t:
            chk.fail("etag-roundtrip", f"set_etag({t!r}, weak={w}) -> header {hv!r} -> get_etag() {rr.get_etag()!r}",
                     {"tag": t, "weak": w})
        u = whttp.unquote_etag(hv)
        add(f"unq {cps(hv)}", f"{o(u[0])} {'~' if u[1] is None else str(u[1]).lower()}", "unq")
        chk.case(("etag-rt", t, w))
    for i in range(100 if quick else 1000):
        L = rng.randint(0, 12)
        data = bytes(rng.randint(0, 255) for _ in range(L))
        rr = _R2(chunkings(rng, data))
        rr.freeze()
        want_tag = whttp.quote_etag(whttp.generate_etag(data))
        if rr.headers.get("ETag") != want_tag or rr.headers.get("Content-Length") != str(L):
            chk.fail("freeze", f"freeze(): ETag {rr.headers.get('ETag')!r} Content-Length {rr.headers.get('Content-Length')!r}",
                     {"data": data.hex()})
        e2 = _EB2(headers=[("If-None-Match", want_tag)]).get_environ()
        rr.make_conditional(e2)
        if rr.status_code != 304:
            chk.fail("304-incomplete", f"frozen response, If-None-Match with its own etag answered {rr.status_code}",
                     {"data": data.hex()})
        chk.case(("freeze", data))
    # generate_etag is a function of the WHOLE representation: equal-length bodies differing in one byte, wherever it is
    MiB = 2 ** 20
    for L in (1, 100, MiB - 1, MiB, MiB + 1, 3 * MiB + 7):
        a = bytes(L)
        ea = whttp.generate_etag(a)
        for pos in sorted({0, 1, L // 2, MiB - 1, MiB, MiB + 1, L - 1}):
            if not 0 <= pos < L:
                continue
            bb = bytearray(a)
            bb[pos] = 1
            b = bytes(bb)
            inp = {"via": "generate_etag", "length": L, "differs_at": pos}
            if whttp.generate_etag(b) == ea:
                chk.fail("etag-not-of-whole-body", f"generate_etag gives the same tag to two bodies of {L} bytes that differ at byte "
                                                   f"{pos}", inp)
            if L >= MiB - 1 and pos not in (0, L - 1, MiB):
                chk.case(("etag-whole", L, pos))
                continue                                   # the full round trip below only on a few of the large ones
            rr = _R2(b)
            rr.add_etag()
            rr.make_conditional(_EB2(headers=[("If-None-Match", whttp.quote_etag(ea))]).get_environ())
            if rr.status_code != 200:
                chk.fail("etag-not-of-whole-body", f"a body of {L} bytes that differs at byte {pos} from the client's copy is "
                                                   f"answered {rr.status_code} to If-None-Match with the old etag", inp)
            try:
                mod = whttp.is_resource_modified({"HTTP_IF_NONE_MATCH": whttp.quote_etag(ea)}, data=b)
            except Exception as ex:  # noqa: BLE001
                mod = repr(ex)
            if mod is not True:
                chk.fail("etag-not-of-whole-body", f"is_resource_modified(data=...) says {mod} for a body of {L} bytes that differs "
                                                   f"at byte {pos}", inp)
            chk.case(("etag-whole", L, pos))
    # get_wsgi_headers: which header survives which status
    from werkzeug.wrappers import Response as _Resp
    from werkzeug.test import EnvironBuilder as _EB
    env0 = _EB().get_environ()
    names = ["Allow", "Content-Encoding", "content-language", "Content-Length", "CONTENT-LOCATION", "Content-MD5", "Content-Range",
             "Content-Type", "Expires", "Last-Modified", "ETag", "Date", "Vary", "Cache-Control", "Accept-Ranges", "X-Foo",
             "Content-Disposition", "content-lengthx", "Last-modified"]
    for stt in (100, 101, 199, 200, 201, 204, 206, 304, 404, 412, 416):
        for nm in names:
            rr = _Resp([], status=stt)
            rr.headers.clear()
            rr.headers[nm] = "1"
            got = any(k.lower() == nm.lower() for k, _ in rr.get_wsgi_headers(env0))
            if nm.lower() == "content-length" and stt not in (204, 304) and not 100 <= stt < 200:
                got = True
            add(f"wk {stt} {cps(nm)}", "1" if got else "0", "wk")
            chk.case(("wk", stt, nm))
    # _plain_int / str(int)
    for t in ["0", "-0", "007", " 12 ", "-12", "+1", "1_0", "١", "", "-", "--1", "1-", " 5 ", "12a", "\x1f3"] + \
            ["".join(rng.choice("0123456789-+_ \t٣x") for _ in range(rng.randint(0, 6))) for _ in range(1500)]:
        from werkzeug._internal import _plain_int
        try:
            res = str(_plain_int(t))
        except ValueError:
            res = "none"
        add(f"pint {cps(t)}", res, "pint")
    for v in list(range(-20, 130)) + [10 ** k for k in range(3, 19)] + [10 ** k - 1 for k in range(3, 19)] + \
            [rng.randint(-10 ** 15, 10 ** 15) for _ in range(500)]:
        add(f"dec {v}", cps(str(v)), "dec")

    # ------------------------------------------------ contracts of the date library the model takes as input
    bad_contract = 0
    for i in range(300):
        sec = micros(T0) // 10 ** 6 + rng.randint(-10 ** 6, 10 ** 6)
        t = fmt_date(rng, sec)
        d = whttp.parse_date(t)
        if d is None or micros(d) != sec * 10 ** 6:
            bad_contract += 1
        back = whttp.parse_date(whttp.http_date(EPOCH + _dt.timedelta(seconds=sec, microseconds=rng.randint(0, 999999))))
        if back is None or micros(back) != sec * 10 ** 6:
            bad_contract += 1
    if bad_contract:
        chk.broken("contract", "parse_date / http_date", f"{bad_contract} of 600 date round trips are not exact to the second")
    chk.count("date-contract-checks", 600)

    # ------------------------------------------------ model side
    exe = chk.build_modelrun("C11")
    if exe:
        res = chk.run_model(exe, lines)
        if res is not None:
            mism = unsupported = 0
            per = {}
            for ln, a, b, tg in zip(lines, impl, res, tags):
                if b == "exn:unsupported":
                    unsupported += 1
                    continue
                if tg == "petags" and b.startswith("s="):
                    m = re.fullmatch(r"s=(.*) w=(.*) star=(\w+)", b)
                    b = "s=%s w=%s star=%s" % (";".join(sorted(set(m.group(1).split(";")) - {""} if m.group(1) else [])),
                                               ";".join(sorted(set(m.group(2).split(";")) - {""} if m.group(2) else [])), m.group(3))
                    ma = re.fullmatch(r"s=(.*) w=(.*) star=(\w+)", a)
                    if ma:
                        a = "s=%s w=%s star=%s" % (";".join(sorted(set(ma.group(1).split(";")) - {""} if ma.group(1) else [])),
                                                   ";".join(sorted(set(ma.group(2).split(";")) - {""} if ma.group(2) else [])), ma.group(3))
                if tg == "prange" and " " in a and " " in b and any(int(x) > 127 for x in ln.split(" ")[1].split(",") if x != "-"):
                    # str.lower() on non-ASCII letters is outside the model; only `units == "bytes"` is observable downstream
                    bb = cps("bytes")
                    a = ("B" if a.split(" ")[0] == bb else "O") + " " + a.split(" ", 1)[1]
                    b = ("B" if b.split(" ")[0] == bb else "O") + " " + b.split(" ", 1)[1]
                per[tg] = per.get(tg, 0) + 1
                if a != b:
                    mism += 1
                    if mism <= 5:
                        chk.broken("correspondence", f"C11 model vs werkzeug ({tg})", f"case {ln!r}: impl {a!r} model {b!r}",
                                   case={"line": ln, "impl": a, "model": b})
            for k, v in per.items():
                chk.count(f"model:compared:{k}", v)
            chk.count("model:unsupported(LF in an ETag list)", unsupported)
            chk.count("model:mismatches", mism)


def run_send_file(chk: Check, add) -> None:
    import tempfile
    import werkzeug.http as whttp
    from werkzeug.test import EnvironBuilder
    from .vlib import BUILD
    rng = chk.rng
    n = 400 if chk.tier == "quick" else 6000
    os.makedirs(BUILD, exist_ok=True)
    with tempfile.TemporaryDirectory(prefix="c11-files-", dir=BUILD) as tmp:
        paths = {}
        for i in range(n):
            L = rng.randint(0, 40)
            cur = rng.choice(["abc", "xyz", "a-b"])
            lm_sec = micros(T0) // 10 ** 6 + rng.randint(-5, 5)
            use_path = rng.random() < 0.3
            c = gen_case(rng, L=L, kind="file", bs=8192, cur=cur, lm_sec=lm_sec, focus="range" if i % 3 == 0 else None)
            c.via, c.accept, c.clen, c.status0, c.preset_cl = "send_file", True, L, 200, str(L)
            if use_path:
                if L not in paths:
                    paths[L] = os.path.join(tmp, f"f{L}.bin")
                    with open(paths[L], "wb") as f:
                        f.write(c.data)
                    os.utime(paths[L], (lm_sec + 0.25, lm_sec + 0.25))
                c.sf_path, c.sf_etag, c.sf_lm = paths[L], True, None
            else:
                c.sf_etag = rng.choice([cur, cur, False])
                c.sf_lm = rng.choice([None, lm_sec, lm_sec + 0.5, EPOCH + _dt.timedelta(seconds=lm_sec, microseconds=250000)])
            # the validators send_file puts on the response (read from an unconditional call)
            plain = send_file_call(c, EnvironBuilder().get_environ(), conditional=False)
            c.etag, c.lm = plain.headers.get("ETag"), plain.headers.get("Last-Modified")
            plain.close()
            if c.etag is None:
                c.etag_sem = None
            else:
                c.etag_sem = (False, c.etag[1:-1])
                if use_path:
                    # request validators were generated against `cur`; aim them at the real tag half of the time
                    for attr in ("inm", "im"):
                        if getattr(c, attr) is not None and rng.random() < 0.6:
                            setattr(c, attr, c.etag)
                            setattr(c, attr + "_sem", (False, [(False, c.etag[1:-1])]))
                    if isinstance(c.if_range_sem, tuple) and c.if_range_sem[0] == "etag" and rng.random() < 0.6:
                        c.if_range, c.if_range_sem = c.etag, ("etag", False, c.etag[1:-1])
            c.lm_sem = None if c.lm is None else micros(whttp.parse_date(c.lm)) // 10 ** 6
            if i % 9 == 4:
                # conditional=False: the request's Range / validators are not looked at
                rv = send_file_call(c, build_environ(c), conditional=False)
                body = b"".join(rv.response)
                if rv.status_code != 200 or body != c.data or "Content-Range" in rv.headers or rv.headers.get("Content-Length") != str(L):
                    chk.fail("send_file-unconditional", f"send_file(conditional=False) answered {rv.status_code} "
                             f"{rv.headers.get('Content-Range')!r}", c.to_input())
                rv.close()
                chk.count("send_file:conditional=False")
            res, obs = run_impl(c)
            before = len(chk.failures)
            oracle(chk, c, obs)
            known_new = [f for f in chk.failures[before:] if f["key"] in KNOWN_KEYS]
            if known_new:
                have = {f["key"] for f in chk.failures[:before]}
                rest = [f for f in chk.failures[before:] if f["key"] not in KNOWN_KEYS or f["key"] not in have]
                del chk.failures[before:]
                chk.failures.extend(rest[:2])
            add(model_line(c, whttp.parse_date), res, "send_file")
            chk.count(f"send_file:status:{obs['status']}")
            chk.case(("send_file", model_line(c, whttp.parse_date)), nontrivial=True)
    chk.count("send_file", n)
    send_file_versions(chk)


def send_file_versions(chk: Check) -> None:
    """the automatic validators of send_file tell two versions of a file apart whenever mtime (at the file system's
    resolution) or size differ: the old ETag must not produce a 304, nor let a Range + If-Range through"""
    import tempfile
    from werkzeug.test import EnvironBuilder
    from werkzeug.utils import send_file
    from werkzeug.exceptions import RequestedRangeNotSatisfiable
    from .vlib import BUILD
    rng = chk.rng
    n = 40 if chk.tier == "quick" else 400
    with tempfile.TemporaryDirectory(prefix="c11-versions-", dir=BUILD) as tmp:
        for i in range(n):
            path = os.path.join(tmp, f"v{i}.bin")
            size = rng.randint(1, 30)
            a = bytes(rng.randint(0, 255) for _ in range(size))
            kind = ["subsecond", "size", "seconds"][i % 3]
            t1 = (1767268800 + rng.randint(0, 10 ** 6)) * 10 ** 9 + 100_000_000
            if kind == "subsecond":
                b, t2 = bytes((x + 1) % 256 for x in a), t1 + 300_000_000         # same size, same second
            elif kind == "size":
                b, t2 = a + b"x", t1                                              # same mtime, one byte more
            else:
                b, t2 = bytes((x + 1) % 256 for x in a), t1 + 2 * 10 ** 9        # same size, two seconds later
            inp = {"via": "send_file-versions", "kind": kind, "a": a.hex(), "b": b.hex(), "mtime1_ns": t1, "mtime2_ns": t2}

            def call(headers=()):
                env = EnvironBuilder(headers=list(headers)).get_environ()
                try:
                    rv = send_file(path, env, mimetype="application/octet-stream")
                except RequestedRangeNotSatisfiable:
                    return 416, None, b"", None
                body = b"".join(rv.response) if rv.status_code not in (304,) else b""
                out = rv.status_code, rv.headers.get("ETag"), body, rv.headers.get("Content-Range")
                rv.close()
                return out
            with open(path, "wb") as f:
                f.write(a)
            os.utime(path, ns=(t1, t1))
            if os.stat(path).st_mtime_ns != t1:
                chk.count("send_file-versions:coarse-file-system")        # no sub-second mtime here: nothing to tell
                continue
            _, etag1, _, _ = call()
            with open(path, "wb") as f:
                f.write(b)
            os.utime(path, ns=(t2, t2))
            _, etag2, _, _ = call()
            if etag1 is None or etag2 is None or etag1 == etag2:
                chk.fail("send_file-etag-stale", f"send_file gives two versions of a file ({kind} differs) the same ETag {etag1!r}", inp)
            st, _, body, cr = call([("If-None-Match", etag1 or "")])
            if st != 200 or body != b:
                chk.fail("send_file-etag-stale", f"If-None-Match with the ETag of the previous version ({kind} differs) answered {st}, "
                                                 f"the current body is {'sent' if body == b else 'not sent'}", inp)
            st, _, body, cr = call([("Range", "bytes=0-0"), ("If-Range", etag1 or "")])
            if st != 200 or body != b or cr is not None:
                chk.fail("send_file-etag-stale", f"Range + If-Range with the ETag of the previous version ({kind} differs) answered "
                                                 f"{st} {cr!r}", inp)
            st, _, body, cr = call([("If-None-Match", etag2 or "")])
            if st != 304:
                chk.fail("304-incomplete", f"If-None-Match with the current automatic ETag answered {st}", inp)
            chk.case(("send_file-versions", i, kind))
    chk.count("send_file-versions", n)


def replay(rep) -> int:
    inp = rep.get("input") or {}
    if inp.get("via") == "_RangeWrapper":
        from werkzeug.wsgi import _RangeWrapper, FileWrapper
        data = bytes.fromhex(inp["data"])
        if inp["kind"] in ("list", "gen"):
            it = [bytes.fromhex(x) for x in inp["chunks"]]
        else:
            it = FileWrapper(open_file(inp["kind"], data), inp["bs"])
        print("observed:", list(_RangeWrapper(it, inp["start"], inp["length"])), "expected bytes:",
              data[inp["start"]:inp["start"] + inp["length"]])
        return 0
    if "tz" in inp:
        import time as _time
        import werkzeug.sansio.http as shttp
        old_tz = os.environ.get("TZ")
        try:
            os.environ["TZ"] = inp["tz"]
            _time.tzset()
            naive = _dt.datetime.fromisoformat(inp["last_modified_naive_utc"])
            aware = naive.replace(tzinfo=_dt.timezone.utc)
            for label, lm in (("naive (UTC by contract)", naive), ("aware UTC", aware)):
                print(f"TZ={inp['tz']} last_modified {label} {lm!r}, If-Modified-Since {inp['date_header']!r}: modified =",
                      shttp.is_resource_modified(None, None, inp["date_header"], None, None, None, None, lm, True))
        finally:
            if old_tz is None:
                os.environ.pop("TZ", None)
            else:
                os.environ["TZ"] = old_tz
            _time.tzset()
        return 0
    if "method" not in inp:
        import json
        print(json.dumps(rep, indent=1))
        return 0
    c = case_from_input(inp)
    res, obs = run_impl(c)
    print("request:", {k: getattr(c, k) for k in ("method", "range", "if_range", "ims", "inm", "im")})
    print("response before:", {"etag": c.etag, "last_modified": c.lm, "body": c.kind, "length": len(c.data), "chunks": c.chunks})
    print("observed:", obs)
    print("reported:", rep.get("key"), "-", rep.get("what"))
    return 0


def main(chk: Check) -> None:
    try:
        gen()
    except px.Unsupported as e:
        chk.broken("translator", "C11/Gen.v", str(e))
    chk.forbidden_scan()
    if chk.coq_make(["C11/Proofs.vo", "C11/Extract.vo"]):
        chk.audit_props("C11/Props.v")
    else:
        chk.cov["obligations"] += 1
    chk.trusted += [
        "translator tools/c11.py + tools/pyextract.py: T2 statement subset (if/elif/else, assignment, return, and/or/not, comparisons, "
        "None tests) into the exception monad of C11/Base.v; atom tables for calls and attribute reads; pinned statement texts for "
        "_process_range_request's tail, make_conditional's decision, _plain_int, to_content_range_header, send_file's calls; "
        "statement skeletons of _RangeWrapper.{__init__,_next_chunk,_first_iteration,_next,__next__} and parse_range_header pinned "
        "with their comparisons / offsets / slice bounds regenerated into C11/GenArith.v; locals are typed by inference, not by name",
        "extraction ExtrOcamlBasic (no Extract Constant) + tools/conv.ml + coq/C11/driver.ml, OCaml 4.13.1",
        "hand-written matchers for _etag_re and _plain_int_re (pattern texts pinned by C11/Gen.v), validated by differential "
        "execution against CPython re; header text without LF; str.strip / \\s modelled with the interpreter's white-space table "
        "(regenerated into Gen.v and compared with lib uni_ws by a sweep); str.lower modelled on ASCII (Gen.v proves no other code "
        "point lowers into the letters of 'bytes'); int() below the interpreter's 4300-digit limit",
        "email.utils date parsing / formatting and datetime arithmetic: parse_date is a Section variable of the model (any function), "
        "datetime values are instants in microseconds; replace(microsecond=0) + _dt_as_utc = floor to the second of the same instant "
        "(checked on 600 round trips per run)",
        "statement pins tools/pins/c11_{response,http,datastructures,wsgi,misc}.txt: every werkzeug function the hand-written model "
        "or an oracle stands for and that is not translated is compared with its pinned text on every run (translated parts are holes)",
        "validated differentially only, no pin wanted: CPython library code (email.utils, datetime, re, io, hashlib.sha1, zlib.adler32); "
        "werkzeug.test.EnvironBuilder / Headers / the header_property descriptors (glue, not specific to this property); "
        "Response.get_wsgi_headers beyond its stripping statement and ClosingIterator (pinned by C05's c05_response.txt); the "
        "mimetype / download-name / max_age / x-sendfile parts of utils.send_file (irrelevant to the property)",
        "seekable bodies are modelled as werkzeug.wsgi.FileWrapper over a byte string (blocks never empty); a seekable iterable that "
        "yields empty chunks at offset 0 is outside the model",
    ]
    run(chk)
    chk.finish(rule="make_conditional end to end through a real WSGI environ: corpus of known/fixed findings; every resource length "
                    "0..40 x 13 Range shapes x 5 body kinds (list, generator, seekable FileWrapper with/without passthrough, "
                    "non-seekable FileWrapper) x block sizes 1..9 (quick: one block size per combination); random requests over the "
                    "Range / ETag-list / date grammars incl. malformed streams; send_file on BytesIO and real files; then every "
                    "modelled function directly (parse_etags, unquote_etag, parse_range_header, is_byte_range_valid full grid, "
                    "range_for_length, is_resource_modified with datetime inputs, _RangeWrapper exhaustively on bodies up to 4 bytes "
                    "and randomly up to 40). A case is non-trivial when it carries a Range or a validator; distinct by hash of the "
                    "model input line.")
