"""C08  Multi-value containers behave exactly like their documented model."""
from __future__ import annotations

import ast
import os

from . import pyextract as px
from .vlib import COQ, Check, cps, with_timeout

PID = "C08"
CLAIM = dict(
    text="Coq theorems over executable models of HeaderSet (both fields _headers and _set), Headers (ordered pair list, "
         "case-folded comparison, every mutator incl. slices), MultiDict / ImmutableMultiDict / CombinedMultiDict "
         "(insertion-ordered dict of lists) and EnvironHeaders (view function of an environ): the HeaderSet representation "
         "invariant over every operation sequence and its refinement to a case-insensitive ordered set, Headers and MultiDict "
         "read-consistency and mutator laws, refinement of every MultiDict operation (set / add / setlist / setdefault / "
         "setlistdefault / update / pop / popitem / poplist / popitemlist / clear / del) to an abstract insertion-ordered multimap "
         "lifted to every operation sequence (guard: no operation stores an empty row, the known finding), CombinedMultiDict "
         "read-through, Headers index / slice operations against Python's index normalisation and slice clamping, "
         "immutability (every mutator named by the mixins regenerated from the source returns TypeError and leaves the state "
         "unchanged), the environ view; equality of MultiDict / Headers / HeaderSet is the stated relation (same key -> row map; "
         "same lines up to key case and order-insensitive membership; same case-folded set) and an equivalence, equal immutable "
         "values hash equal for every hash of their item set, copy / deepcopy / __reduce_ex__ / __getstate__ + __setstate__ "
         "rebuild the abstract value on good states (refuted with a witness on a state holding an empty row, the known "
         "finding), and on states that already hold an empty row exactly which reads still agree with the multimap without it "
         "(getlist / get / in / len / keys-free reads; items, keys and the position of a later add are refuted with witnesses). "
         "Copy independence over a heap of rows under the model (key -> reference to a row; in-place append, bind to a new row, "
         "unbind, clear refine the functional operations): a primitive on one dict leaves every dict sharing no row with it "
         "unchanged, copy() gives new rows, so any operation sequence on the copy leaves the original unchanged and the other "
         "way round (refuted with a witness for a copy that shares rows); the same for Headers with one cell per object. "
         "The case-folded comparison expressions and the mutator-blocking tables are regenerated "
         "from the source on every run; the models are compared with the implementation by differential execution "
         "(extracted OCaml model vs werkzeug) on exhaustive short and random long operation sequences with every public read "
         "after every step.",
    note="Trusted: Coq kernel; translator tools/c08.py (expression subset: .lower()/.upper()/.replace, ==, !=, in/not in over "
         "the model's set, and/or/not); ExtrOcamlBasic extraction + driver; str.lower/upper/title modelled on ASCII (keys outside "
         "ASCII are outside the claimed domain; the harness still runs them on the implementation); Python dict = insertion-ordered "
         "association list, Python set = duplicate-free list compared as a set. NOT proved, compared on the implementation by the "
         "harness only: the pickle byte stream itself, the correspondence of the heap model of copy independence "
         "(the row copy vs[:] of MultiDict.__init__ and the copy / __reduce_ex__ / __getstate__ / __setstate__ / __hash__ / "
         "__eq__ bodies are pinned statement by statement; the harness mutates each copy and re-reads the original), value independence of deep copies (the model's values are "
         "immutable strings: with list / dict / object values the oracle requires copy.deepcopy, deepcopy of an enclosing "
         "structure, .deepcopy() and a pickle round trip to share no value with the original in either direction, and copy.copy / "
         ".copy() to share the values but not the container, for MultiDict, ImmutableMultiDict, the ordered variants, "
         "CombinedMultiDict, ImmutableDict, TypeConversionDict, ImmutableTypeConversionDict, ImmutableList, FileMultiDict, CallbackDict), "
         "FileMultiDict, get(type=...) conversions, None values. Known findings: CombinedMultiDict.__eq__ compares the empty "
         "dict storage, so any two CombinedMultiDict are equal; HeaderSet item assignment can create a case-insensitive "
         "duplicate; MultiDict.setlist(k, []) / setlistdefault(k) leave an empty list on which items()/values() raise IndexError."
         " Statement pins: tools/pins/c08_containers.txt: every method of iter_multi_items, ImmutableList, TypeConversionDict, "
         "ImmutableTypeConversionDict, MultiDict, the ordered variants, CombinedMultiDict, ImmutableDict, ImmutableMultiDict, "
         "HeaderSet, Headers, EnvironHeaders, _options_header_vkw, _str_header_value, the immutable mixins (minus the blocked "
         "mutators, which are table rows), FileMultiDict and wrappers Request.__init__, with holes where the case-folded "
         "expressions are translated. Validated differentially only, no pin wanted: CPython dict / list / set / str methods, "
         "copy and pickle (library code, not werkzeug code).",
    design="6/C08")


# ====================================================================== translator (T1 + T2)

class _Env(dict):
    pass


def _expr(node: ast.expr, env: dict[str, str]) -> str:
    """str-valued expression -> Gallina term of type str.  Fail closed."""
    if isinstance(node, ast.Name):
        if node.id not in env:
            raise px.Unsupported(f"unbound name {node.id} in a translated condition")
        return env[node.id]
    if isinstance(node, ast.Constant) and isinstance(node.value, str):
        return px.coq_string_codes(node.value)
    if isinstance(node, ast.Subscript):
        txt = ast.unparse(node)
        if txt in env:
            return env[txt]
        raise px.Unsupported(f"subscript {txt} not in the atom table")
    if isinstance(node, ast.Call) and isinstance(node.func, ast.Attribute) and not node.keywords:
        recv = _expr(node.func.value, env)
        m = node.func.attr
        if m == "lower" and not node.args:
            return f"(lower {recv})"
        if m == "upper" and not node.args:
            return f"(upper {recv})"
        if m == "title" and not node.args:
            return f"(title {recv})"
        if m == "replace" and len(node.args) == 2:
            a, b = (px.const(x) for x in node.args)
            if not (isinstance(a, str) and isinstance(b, str) and len(a) == 1 and len(b) == 1):
                raise px.Unsupported("replace() with non single-character arguments")
            return f"(replace1 {ord(a)} {ord(b)} {recv})"
    if isinstance(node, ast.JoinedStr):
        parts = []
        for v in node.values:
            if isinstance(v, ast.Constant):
                parts.append(px.coq_string_codes(v.value))
            elif isinstance(v, ast.FormattedValue) and v.conversion == -1 and v.format_spec is None:
                parts.append(_expr(v.value, env))
            else:
                raise px.Unsupported("f-string form not supported")
        return "(" + " ++ ".join(parts) + ")"
    raise px.Unsupported(f"expression not supported: {ast.unparse(node)}")


def _strset(node: ast.expr) -> str:
    if isinstance(node, ast.Set):
        vals = [px.const(e) for e in node.elts]
        if all(isinstance(v, str) for v in vals):
            return "[" + "; ".join(px.coq_string_codes(v) for v in vals) + "]"
    raise px.Unsupported(f"not a literal set of strings: {ast.unparse(node)}")


def _cond(node: ast.expr, env: dict[str, str], sets: dict[str, str]) -> str:
    """boolean condition -> Gallina bool term.  sets: unparse text of a set-valued expression -> Gallina list."""
    if isinstance(node, ast.BoolOp):
        op = " && " if isinstance(node.op, ast.And) else " || "
        return "(" + op.join(_cond(v, env, sets) for v in node.values) + ")"
    if isinstance(node, ast.UnaryOp) and isinstance(node.op, ast.Not):
        return f"(negb {_cond(node.operand, env, sets)})"
    if isinstance(node, ast.Compare) and len(node.ops) == 1:
        op, rhs = node.ops[0], node.comparators[0]
        if isinstance(op, (ast.Eq, ast.NotEq)):
            # == is commutative: canonical operand order (the element of the scanned list first, then textual)
            import re as _re
            a, b = sorted((_expr(node.left, env), _expr(rhs, env)),
                          key=lambda t: (0 if _re.search(r"\b(item|k)\b", t) else 1, t))
            t = f"(list_eqb {a} {b})"
            return t if isinstance(op, ast.Eq) else f"(negb {t})"
        if isinstance(op, (ast.In, ast.NotIn)):
            key = ast.unparse(rhs)
            s = sets[key] if key in sets else _strset(rhs)
            t = f"(smem {_expr(node.left, env)} {s})"
            return t if isinstance(op, ast.In) else f"(negb {t})"
    if isinstance(node, ast.Call) and isinstance(node.func, ast.Attribute) and node.func.attr == "startswith" \
            and len(node.args) == 1 and not node.keywords:
        return f"(starts_with {px.coq_string_codes(px.const(node.args[0]))} {_expr(node.func.value, env)})"
    if isinstance(node, ast.Name) and ("?" + node.id) in env:      # truthiness of a str
        return env["?" + node.id]
    raise px.Unsupported(f"condition not supported: {ast.unparse(node)}")


def _method(cls: ast.ClassDef, name: str) -> ast.FunctionDef:
    found = [n for n in cls.body if isinstance(n, ast.FunctionDef) and n.name == name
             and not any(isinstance(d, ast.Attribute) and d.attr == "overload" for d in n.decorator_list)]
    if len(found) != 1:
        raise px.Unsupported(f"expected exactly one def {cls.name}.{name}, found {len(found)}")
    return found[0]


def _body(fn: ast.FunctionDef) -> list[ast.stmt]:
    b = list(fn.body)
    if b and isinstance(b[0], ast.Expr) and isinstance(b[0].value, ast.Constant) and isinstance(b[0].value.value, str):
        b = b[1:]
    return b


def _bind(stmts: list[ast.stmt], env: dict[str, str]) -> list[ast.stmt]:
    """consume leading `name = <str expr>` statements into env (substitution); return the rest."""
    i = 0
    while i < len(stmts) and isinstance(stmts[i], ast.Assign) and len(stmts[i].targets) == 1 \
            and isinstance(stmts[i].targets[0], ast.Name):
        try:
            env[stmts[i].targets[0].id] = _expr(stmts[i].value, env)
        except px.Unsupported:
            break
        i += 1
    return stmts[i:]


def _loop_if(stmt: ast.stmt, what: str) -> tuple[ast.For, ast.If]:
    if not (isinstance(stmt, ast.For) and len(stmt.body) == 1 and isinstance(stmt.body[0], ast.If)):
        raise px.Unsupported(f"{what}: expected `for ...: if ...:`")
    return stmt, stmt.body[0]


def _loop_var(f: ast.For, env: dict[str, str], over: str, pair: bool, enum: bool, item: str = "item"):
    """bind the loop variable(s) of `for [idx,] x in [enumerate(]<over>[)]`."""
    it = f.iter
    if enum:
        if not (isinstance(it, ast.Call) and isinstance(it.func, ast.Name) and it.func.id == "enumerate"
                and len(it.args) == 1):
            raise px.Unsupported("loop is not over enumerate(...)")
        it = it.args[0]
        if not (isinstance(f.target, ast.Tuple) and len(f.target.elts) == 2):
            raise px.Unsupported("enumerate loop target is not a pair")
        tgt = f.target.elts[1]
    else:
        tgt = f.target
    if ast.unparse(it) != over:
        raise px.Unsupported(f"loop iterates over {ast.unparse(it)}, expected {over}")
    if pair:
        if not (isinstance(tgt, ast.Tuple) and len(tgt.elts) == 2 and all(isinstance(e, ast.Name) for e in tgt.elts)):
            raise px.Unsupported("loop target is not a (key, value) pair")
        env[tgt.elts[0].id] = "k"
        if tgt.elts[1].id != "_":
            env[tgt.elts[1].id] = "v"
    else:
        if not isinstance(tgt, ast.Name):
            raise px.Unsupported("loop target is not a name")
        env[tgt.id] = item


def _blocked(cls: ast.ClassDef) -> list[str]:
    """names of the methods whose whole body is `_immutable_error(self)`."""
    out = []
    for n in cls.body:
        if isinstance(n, ast.FunctionDef):
            b = _body(n)
            if len(b) == 1 and isinstance(b[0], ast.Expr) and ast.unparse(b[0].value) == "_immutable_error(self)":
                out.append(n.name)
    return out


def _method_names(cls: ast.ClassDef) -> list[str]:
    out = []
    for n in cls.body:
        if isinstance(n, ast.FunctionDef) and n.name not in out:
            out.append(n.name)
        elif isinstance(n, ast.Assign):
            for t in n.targets:
                if isinstance(t, ast.Name) and t.id not in out:
                    out.append(t.id)
    return out


# every method of the modelled classes, classified; an unknown name stops the translator (a new public
# operation is outside the model, and the property quantifies over all of them)
INVENTORY = {
    "MultiDict": {
        "read": ["__init__", "__getstate__", "__setstate__", "__iter__", "__getitem__", "getlist", "items", "lists", "values",
                 "listvalues", "copy", "deepcopy", "to_dict", "__or__", "__copy__", "__deepcopy__", "__repr__"],
        "mut": ["__setitem__", "add", "setlist", "setdefault", "setlistdefault", "update", "__ior__", "pop", "popitem",
                "poplist", "popitemlist"],
    },
    "TypeConversionDict": {"read": ["get"], "mut": []},
    "CombinedMultiDict": {
        "read": ["__reduce_ex__", "deepcopy", "__init__", "fromkeys", "__getitem__", "get", "getlist", "_keys_impl", "keys", "__iter__",
                 "items", "values", "lists", "listvalues", "copy", "__len__", "__contains__", "__repr__"],
        "mut": [],
    },
    "ImmutableMultiDict": {"read": ["copy", "__copy__"], "mut": []},
    "HeaderSet": {
        "read": ["__init__", "find", "index", "as_set", "to_header", "__getitem__", "__contains__", "__len__", "__iter__",
                 "__bool__", "__str__", "__repr__"],
        "mut": ["add", "remove", "update", "discard", "clear", "__delitem__", "__setitem__"],
    },
    "Headers": {
        "read": ["__init__", "__getitem__", "_get_key", "__eq__", "__hash__", "get", "getlist", "get_all", "items", "keys",
                 "values", "__contains__", "__iter__", "__len__", "__or__", "to_wsgi_list", "copy", "__copy__", "__str__",
                 "__repr__"],
        "mut": ["extend", "__delitem__", "_del_key", "remove", "pop", "popitem", "add", "add_header", "clear", "set", "setlist",
                "setdefault", "setlistdefault", "__setitem__", "update", "__ior__"],
    },
    "EnvironHeaders": {
        "read": ["__init__", "__eq__", "__hash__", "__getitem__", "_get_key", "__len__", "__iter__", "copy", "__or__"],
        "mut": [],
    },
}
# dict mutators inherited from dict itself (not defined in MultiDict) that the immutable mixins must also block
DICT_MUTATORS = ["__delitem__", "clear"]


# ---- statement pins (PIN_AUDIT): everything the hand-written model stands for that is not translated is compared, as
# normalised source text, with a committed pin; the texts that _cond / _expr translated become holes.
_REC = {"depth": 0, "texts": []}


def _recording(fn):
    def wrapped(node, *a, **k):
        top = _REC["depth"] == 0
        _REC["depth"] += 1
        try:
            return fn(node, *a, **k)
        finally:
            _REC["depth"] -= 1
            if top and isinstance(node, ast.AST) and not isinstance(node, (ast.Name, ast.Constant)):
                _REC["texts"].append(ast.unparse(node))
    wrapped.__name__ = fn.__name__
    return wrapped


_cond = _recording(_cond)
_expr = _recording(_expr)


def _norm(node):
    """copy of a def / class with every docstring, annotation and typing overload stub removed"""
    import copy
    node = copy.deepcopy(node)
    for n in ast.walk(node):
        body = getattr(n, "body", None)
        if isinstance(n, (ast.FunctionDef, ast.AsyncFunctionDef, ast.ClassDef)) and isinstance(body, list):
            body[:] = [x for x in body if not (isinstance(x, ast.FunctionDef) and any("overload" in ast.unparse(d) for d in x.decorator_list))]
            if body and isinstance(body[0], ast.Expr) and isinstance(body[0].value, ast.Constant) and isinstance(body[0].value.value, str):
                del body[0]
            if not body:
                body.append(ast.Pass())
        if isinstance(n, (ast.FunctionDef, ast.AsyncFunctionDef)):
            n.returns = None
            for a in n.args.posonlyargs + n.args.args + n.args.kwonlyargs + [x for x in (n.args.vararg, n.args.kwarg) if x]:
                a.annotation = None
    return node


def _hole_inner(fn, names):
    """names: the functions whose nested on_update callback is translated as a whole: its body becomes a hole"""
    if fn.name not in names:
        return fn
    for n in ast.walk(fn):
        if n is not fn and isinstance(n, ast.FunctionDef) and n.name == "on_update":
            n.body = [ast.Expr(ast.Name(id="TRANSLATED_BODY", ctx=ast.Load()))]
    return fn


def pin_items(mod, spec, holes=None, skip_assign=lambda a: False, inner_translated=()) -> str:
    """spec: names of top-level defs / classes / assignments of the parsed module, or (class name, [methods left out because a
    table row is translated from each of them]).  Result: one block per function / method / class-level statement."""
    out = []
    for item in spec:
        name, drop = item if isinstance(item, tuple) else (item, [])
        nodes = [n for n in mod.body if (isinstance(n, (ast.FunctionDef, ast.ClassDef)) and n.name == name)
                 or (isinstance(n, ast.Assign) and ast.unparse(n.targets[0]) == name)
                 or (isinstance(n, ast.AnnAssign) and ast.unparse(n.target) == name)]
        nodes = [n for n in nodes if not (isinstance(n, ast.FunctionDef) and any("overload" in ast.unparse(d) for d in n.decorator_list))]
        if not nodes:
            raise px.Unsupported(f"pinned item {name} is gone")
        for n in nodes:
            if isinstance(n, ast.ClassDef):
                c = _norm(n)
                out.append(f"## class {c.name}({', '.join(ast.unparse(b) for b in c.bases)})")
                for m in c.body:
                    if isinstance(m, (ast.FunctionDef, ast.AsyncFunctionDef)):
                        if m.name in drop:
                            continue
                        _hole_inner(m, inner_translated)
                        out.append(f"## {c.name}.{m.name}\n" + px.skeleton(m, holes))
                    elif isinstance(m, ast.Pass) or (isinstance(m, (ast.Assign, ast.AnnAssign)) and skip_assign(m)):
                        continue
                    else:
                        out.append(f"## {c.name}: " + px.skeleton(m, holes))
            elif isinstance(n, ast.FunctionDef):
                out.append(f"## {n.name}\n" + px.skeleton(_hole_inner(_norm(n), inner_translated), holes))
            else:
                out.append("## " + ast.unparse(n))
    return "\n".join(out) + "\n"


def gen() -> None:
    _REC["texts"].clear()
    st = px.load("datastructures/structures.py")
    hd = px.load("datastructures/headers.py")
    mx = px.load("datastructures/mixins.py")
    http = px.load("http.py")
    out = px.HEADER.format(tool="c08.py", src="datastructures/structures.py, headers.py, mixins.py, http.py")
    out += "From Wz Require Import C08.LibStr.\n\n"

    # ---- inventories
    for mod, names in ((st, ["MultiDict", "TypeConversionDict", "CombinedMultiDict", "ImmutableMultiDict", "HeaderSet"]),
                       (hd, ["Headers", "EnvironHeaders"])):
        for cn in names:
            have = _method_names(px.find_class(mod, cn))
            inv = INVENTORY[cn]["read"] + INVENTORY[cn]["mut"]
            extra = [m for m in have if m not in inv]
            missing = [m for m in inv if m not in have]
            if extra or missing:
                raise px.Unsupported(f"{cn}: methods not in the model's inventory {extra}, modelled but gone {missing}")

    def names_def(name: str, names: list[str]) -> str:
        return f"Definition {name} : list str :=\n  [" + ";\n   ".join(px.coq_string_codes(n) for n in names) + "].\n"

    # ---- T1: mutator-blocking tables of the immutable mixins
    idm = _blocked(px.find_class(mx, "ImmutableDictMixin"))
    imm = _blocked(px.find_class(mx, "ImmutableMultiDictMixin"))
    ihm = _blocked(px.find_class(mx, "ImmutableHeadersMixin"))
    bases = [ast.unparse(b) for b in px.find_class(mx, "ImmutableMultiDictMixin").bases]
    if bases != ["ImmutableDictMixin[K, V]"]:
        raise px.Unsupported(f"ImmutableMultiDictMixin bases changed: {bases}")
    for cn, want in (("ImmutableMultiDict", ["ImmutableMultiDictMixin[K, V]", "MultiDict[K, V]"]),
                     ("CombinedMultiDict", ["ImmutableMultiDictMixin[K, V]", "MultiDict[K, V]"])):
        got = [ast.unparse(b) for b in px.find_class(st, cn).bases]
        if got != want:
            raise px.Unsupported(f"{cn} bases changed: {got}")
    got = [ast.unparse(b) for b in px.find_class(hd, "EnvironHeaders").bases]
    if got != ["ImmutableHeadersMixin", "Headers"]:
        raise px.Unsupported(f"EnvironHeaders bases changed: {got}")
    # a subclass re-enabling a blocked mutator would defeat the table
    for cn, mod in (("ImmutableMultiDict", st), ("CombinedMultiDict", st), ("EnvironHeaders", hd)):
        over = [m for m in _method_names(px.find_class(mod, cn)) if m in idm + imm + ihm]
        if over:
            raise px.Unsupported(f"{cn} overrides blocked mutators {over}")
    out += names_def("immutable_multidict_blocked", idm + imm)
    out += names_def("immutable_headers_blocked", ihm)
    out += names_def("multidict_mutators", INVENTORY["MultiDict"]["mut"] + DICT_MUTATORS)
    out += names_def("headers_mutators", [m for m in INVENTORY["Headers"]["mut"] if m != "_del_key"])

    # ---- T1: token characters of quote_header_value
    tc = px.const(px.find_assign(http, "_token_chars").args[0]) if isinstance(px.find_assign(http, "_token_chars"), ast.Call) \
        else None
    if not isinstance(tc, str):
        raise px.Unsupported("_token_chars is not frozenset(<literal>)")
    out += f"Definition token_chars : list (N * N) := {px.coq_ranges([ord(c) for c in tc])}.\n\n"

    # ---- T2: HeaderSet
    hs = px.find_class(st, "HeaderSet")
    sets = {"self._set": "set"}

    # __init__: self._set = {x.lower() for x in self._headers}
    b = _body(_method(hs, "__init__"))
    comp = [s for s in b if isinstance(s, ast.Assign) and ast.unparse(s.targets[0]) == "self._set"]
    if len(comp) != 1 or not isinstance(comp[0].value, ast.SetComp) or len(comp[0].value.generators) != 1:
        raise px.Unsupported("HeaderSet.__init__: _set is not a set comprehension")
    g = comp[0].value.generators[0]
    if ast.unparse(g.iter) != "self._headers" or g.ifs or not isinstance(g.target, ast.Name):
        raise px.Unsupported("HeaderSet.__init__: comprehension not over self._headers")
    out += f"Definition hs_init_key (item : str) : str := {_expr(comp[0].value.elt, {g.target.id: 'item'})}.\n"

    # remove
    env = {"header": "header"}
    b = _bind(_body(_method(hs, "remove")), env)
    if not (len(b) == 4 and isinstance(b[0], ast.If) and isinstance(b[0].body[0], ast.Raise) and not b[0].orelse
            and ast.unparse(b[0].body[0].exc) == "KeyError(header)"):
        raise px.Unsupported("HeaderSet.remove: guard/raise shape changed")
    out += f"Definition hs_remove_missing (header : str) (set : list str) : bool := {_cond(b[0].test, env, sets)}.\n"
    if not (isinstance(b[1], ast.Expr) and isinstance(b[1].value, ast.Call)
            and ast.unparse(b[1].value.func) == "self._set.remove" and len(b[1].value.args) == 1):
        raise px.Unsupported("HeaderSet.remove: self._set.remove(...) expected")
    out += f"Definition hs_remove_key (header : str) : str := {_expr(b[1].value.args[0], env)}.\n"
    f, cond = _loop_if(b[2], "HeaderSet.remove")
    if [ast.unparse(s) for s in cond.body] != ["del self._headers[idx]", "break"] or cond.orelse or f.orelse:
        raise px.Unsupported("HeaderSet.remove: loop body is not `del self._headers[idx]; break`")
    env2 = dict(env)
    _loop_var(f, env2, "self._headers", pair=False, enum=True)
    out += f"Definition hs_remove_match (item header : str) : bool := {_cond(cond.test, env2, sets)}.\n"
    if ast.unparse(b[3]) != "if self.on_update is not None:\n    self.on_update(self)":
        raise px.Unsupported("HeaderSet.remove: on_update call changed")

    # update
    b = _body(_method(hs, "update"))
    loops = [s for s in b if isinstance(s, ast.For)]
    if len(loops) != 1 or ast.unparse(loops[0].iter) != "iterable" or not isinstance(loops[0].target, ast.Name):
        raise px.Unsupported("HeaderSet.update: loop shape changed")
    env = {loops[0].target.id: "header"}
    lb = _bind(list(loops[0].body), env)
    if not (len(lb) == 1 and isinstance(lb[0], ast.If) and not lb[0].orelse and len(lb[0].body) == 3):
        raise px.Unsupported("HeaderSet.update: loop body changed")
    out += f"Definition hs_update_new (header : str) (set : list str) : bool := {_cond(lb[0].test, env, sets)}.\n"
    s0, s1, s2 = lb[0].body
    if not (isinstance(s0, ast.Expr) and ast.unparse(s0.value.func) == "self._headers.append"
            and isinstance(s1, ast.Expr) and ast.unparse(s1.value.func) == "self._set.add"
            and ast.unparse(s2) == "inserted_any = True"):
        raise px.Unsupported("HeaderSet.update: append/add/flag statements changed")
    out += f"Definition hs_update_item (header : str) : str := {_expr(s0.value.args[0], env)}.\n"
    out += f"Definition hs_update_key (header : str) : str := {_expr(s1.value.args[0], env)}.\n"
    if ast.unparse(b[-1]) != "if inserted_any and self.on_update is not None:\n    self.on_update(self)":
        raise px.Unsupported("HeaderSet.update: on_update condition changed")

    # find
    env = {"header": "header"}
    b = _bind(_body(_method(hs, "find")), env)
    f, cond = _loop_if(b[0], "HeaderSet.find")
    if [ast.unparse(s) for s in cond.body] != ["return idx"] or ast.unparse(b[1]) != "return -1":
        raise px.Unsupported("HeaderSet.find: shape changed")
    env2 = dict(env)
    _loop_var(f, env2, "self._headers", pair=False, enum=True)
    out += f"Definition hs_find_match (item header : str) : bool := {_cond(cond.test, env2, sets)}.\n"

    # __contains__, __delitem__, __setitem__
    b = _body(_method(hs, "__contains__"))
    if not (len(b) == 1 and isinstance(b[0], ast.Return)):
        raise px.Unsupported("HeaderSet.__contains__ changed")
    out += f"Definition hs_contains (header : str) (set : list str) : bool := {_cond(b[0].value, {'header': 'header'}, sets)}.\n"
    b = _body(_method(hs, "__delitem__"))
    if [ast.unparse(s) for s in b[:1]] != ["rv = self._headers.pop(idx)"] or ast.unparse(b[1].value.func) != "self._set.remove":
        raise px.Unsupported("HeaderSet.__delitem__ changed")
    out += f"Definition hs_delitem_key (rv : str) : str := {_expr(b[1].value.args[0], {'rv': 'rv'})}.\n"
    b = _body(_method(hs, "__setitem__"))
    if ([ast.unparse(s) for s in (b[0], b[2])] != ["old = self._headers[idx]", "self._headers[idx] = value"]
            or ast.unparse(b[1].value.func) != "self._set.remove" or ast.unparse(b[3].value.func) != "self._set.add"):
        raise px.Unsupported("HeaderSet.__setitem__ changed")
    out += f"Definition hs_setitem_oldkey (old : str) : str := {_expr(b[1].value.args[0], {'old': 'old'})}.\n"
    out += f"Definition hs_setitem_newkey (value : str) : str := {_expr(b[3].value.args[0], {'value': 'value'})}.\n"
    for m in ("__len__", "__bool__"):
        if "self._set" not in ast.unparse(_body(_method(hs, m))[0]):
            raise px.Unsupported(f"HeaderSet.{m} no longer reads self._set")
    if ast.unparse(_body(_method(hs, "__iter__"))[0]) != "return iter(self._headers)":
        raise px.Unsupported("HeaderSet.__iter__ changed")
    out += "\n"

    # ---- T2: Headers
    H = px.find_class(hd, "Headers")
    env = {"key": "key"}
    b = _bind(_body(_method(H, "_get_key")), env)
    f, cond = _loop_if(b[0], "Headers._get_key")
    env2 = dict(env)
    _loop_var(f, env2, "self._list", pair=True, enum=False)
    if [ast.unparse(s) for s in cond.body] != ["return v"] or not isinstance(b[1], ast.Raise):
        raise px.Unsupported("Headers._get_key: shape changed")
    out += f"Definition hd_get_match (k key : str) : bool := {_cond(cond.test, env2, {})}.\n"

    env = {"key": "key"}
    b = _bind(_body(_method(H, "_del_key")), env)
    if ast.unparse(b[0]) != "new = []" or ast.unparse(b[2]) != "self._list[:] = new":
        raise px.Unsupported("Headers._del_key: shape changed")
    f, cond = _loop_if(b[1], "Headers._del_key")
    env2 = dict(env)
    _loop_var(f, env2, "self._list", pair=True, enum=False)
    if [ast.unparse(s) for s in cond.body] != ["new.append((k, v))"]:
        raise px.Unsupported("Headers._del_key: loop body changed")
    out += f"Definition hd_del_keep (k key : str) : bool := {_cond(cond.test, env2, {})}.\n"

    env = {"key": "key"}
    b = _bind(_body(_method(H, "getlist")), env)
    ret = b[-1]
    if not (isinstance(ret, ast.Return) and isinstance(ret.value, ast.ListComp) and len(ret.value.generators) == 1
            and ast.unparse(ret.value.elt) == "v" and ast.unparse(ret.value.generators[0].target) == "(k, v)"
            and ast.unparse(ret.value.generators[0].iter) == "self" and len(ret.value.generators[0].ifs) == 1):
        raise px.Unsupported("Headers.getlist: final comprehension changed")
    env2 = dict(env, k="k", v="v")
    out += f"Definition hd_getlist_match (k key : str) : bool := {_cond(ret.value.generators[0].ifs[0], env2, {})}.\n"

    b = _body(_method(H, "set"))
    txt = [ast.unparse(s) for s in b]
    want_prefix = ["if kwargs:\n    value = _options_header_vkw(value, kwargs)", "value_str = _str_header_value(value)",
                   "if not self._list:\n    self._list.append((key, value_str))\n    return", "iter_list = iter(self._list)",
                   "ikey = key.lower()"]
    if txt[:5] != want_prefix or len(b) != 7:
        raise px.Unsupported("Headers.set: statement sequence changed")
    env = {"key": "key"}
    _bind([b[4]], env)
    loop = b[5]
    if not (isinstance(loop, ast.For) and ast.unparse(loop.target) == "(idx, (old_key, _))"
            and ast.unparse(loop.iter) == "enumerate(iter_list)" and len(loop.body) == 1 and isinstance(loop.body[0], ast.If)
            and [ast.unparse(s) for s in loop.body[0].body] == ["self._list[idx] = (key, value_str)", "break"]
            and [ast.unparse(s) for s in loop.orelse] == ["self._list.append((key, value_str))", "return"]):
        raise px.Unsupported("Headers.set: replace-first loop changed")
    out += f"Definition hd_set_match (k key : str) : bool := {_cond(loop.body[0].test, dict(env, old_key='k'), {})}.\n"
    tail = b[6]
    if not (isinstance(tail, ast.Assign) and ast.unparse(tail.targets[0]) == "self._list[idx + 1:]"
            and isinstance(tail.value, ast.ListComp) and ast.unparse(tail.value.elt) == "t"
            and ast.unparse(tail.value.generators[0].iter) == "iter_list" and len(tail.value.generators[0].ifs) == 1):
        raise px.Unsupported("Headers.set: remove-remaining statement changed")
    out += f"Definition hd_set_keep (k key : str) : bool := {_cond(tail.value.generators[0].ifs[0], dict(env, **{'t[0]': 'k'}), {})}.\n"

    # _str_header_value: the newline class
    pat, flags = px.regex_of(px.find_assign(hd, "_newline_re"))
    body = px.single_class_pattern(pat)
    if flags != 0 or not isinstance(pat, str):
        raise px.Unsupported("_newline_re flags/type changed")
    import re as _re
    tab = px.class_table(body, flags, range(0x3000))
    for cp in (0x2028, 0x2029, 0x85, 0x10FFFF):
        if _re.fullmatch(body, chr(cp)) and cp not in tab:
            tab.append(cp)
    out += f"Definition newline_class : list (N * N) := {px.coq_ranges(tab)}.\n"
    fn = px.find_def(hd, "_str_header_value")
    if [ast.unparse(s) for s in _body(fn)] != [
            "if not isinstance(value, str):\n    value = str(value)",
            "if _newline_re.search(value) is not None:\n    raise ValueError('Header values must not contain newline characters.')",
            "return value"]:
        raise px.Unsupported("_str_header_value: body changed")
    out += "\n"

    # ---- T2: EnvironHeaders
    E = px.find_class(hd, "EnvironHeaders")
    b = _body(_method(E, "_get_key"))
    if ast.unparse(b[0]) != "if not isinstance(key, str):\n    raise BadRequestKeyError(key)":
        raise px.Unsupported("EnvironHeaders._get_key: isinstance guard changed")
    env = {"key": "key"}
    rest = _bind(b[1:], env)
    if not (len(rest) == 2 and isinstance(rest[0], ast.If) and ast.unparse(rest[0].body[0]) == "return self.environ[key]"
            and isinstance(rest[1], ast.Return) and isinstance(rest[1].value, ast.Subscript)
            and ast.unparse(rest[1].value.value) == "self.environ"):
        raise px.Unsupported("EnvironHeaders._get_key: lookup shape changed")
    out += f"Definition env_key (key : str) : str := {env['key']}.\n"
    out += f"Definition env_key_plain (key : str) : bool := {_cond(rest[0].test, {'key': 'key'}, {})}.\n"
    out += f"Definition env_key_http (key : str) : str := {_expr(rest[1].value.slice, {'key': 'key'})}.\n"
    b = _body(_method(E, "__iter__"))
    if not (len(b) == 1 and isinstance(b[0], ast.For) and ast.unparse(b[0].target) == "(key, value)"
            and ast.unparse(b[0].iter) == "self.environ.items()" and len(b[0].body) == 1 and isinstance(b[0].body[0], ast.If)):
        raise px.Unsupported("EnvironHeaders.__iter__: loop shape changed")
    i1 = b[0].body[0]
    if not (len(i1.body) == 1 and isinstance(i1.body[0], ast.Expr) and isinstance(i1.body[0].value, ast.Yield)
            and len(i1.orelse) == 1 and isinstance(i1.orelse[0], ast.If) and not i1.orelse[0].orelse):
        raise px.Unsupported("EnvironHeaders.__iter__: branches changed")
    i2 = i1.orelse[0]
    envi = {"key": "key", "?value": "(negb (list_eqb value []))"}
    y1, y2 = i1.body[0].value.value, i2.body[0].value.value
    if not (isinstance(y1, ast.Tuple) and ast.unparse(y1.elts[1]) == "value" and isinstance(y2, ast.Tuple)
            and ast.unparse(y2.elts[1]) == "value"):
        raise px.Unsupported("EnvironHeaders.__iter__: yielded pairs changed")
    k1 = y1.elts[0]
    # key[5:] : only the literal slice [5:] (the length of the HTTP_ prefix) is recognised
    def slice5(n):
        class T(ast.NodeTransformer):
            def visit_Subscript(self, s):
                if ast.unparse(s) == "key[5:]":
                    return ast.Name(id="__key5", ctx=ast.Load())
                return s
        return T().visit(n)
    out += f"Definition env_iter_http (key value : str) : bool := {_cond(i1.test, envi, {})}.\n"
    out += f"Definition env_iter_http_name (key : str) : str := {_expr(slice5(k1), {'__key5': '(skipn 5 key)'})}.\n"
    out += f"Definition env_iter_plain (key value : str) : bool := {_cond(i2.test, envi, {})}.\n"
    out += f"Definition env_iter_plain_name (key : str) : str := {_expr(y2.elts[0], {'key': 'key'})}.\n"
    # ---- equality, hashing, copying, pickling: pinned bodies (the model's md_eqb / hd_eqb / hs_eqb, md_copy / md_deepcopy /
    # imd_reduce / md_setstate and the hash theorem's reading "a function of the frozenset of the items" mirror them)
    def pin(cls, meth, want):
        got = [ast.unparse(x) for x in _body(_method(cls, meth))]
        if got != want:
            raise px.Unsupported(f"{cls.name}.{meth} changed: {got}")
    IDM, IMM = px.find_class(mx, "ImmutableDictMixin"), px.find_class(mx, "ImmutableMultiDictMixin")
    pin(IDM, "__hash__", ["if self._hash_cache is not None:\n    return self._hash_cache",
                          "rv = self._hash_cache = hash(frozenset(self._iter_hashitems()))", "return rv"])
    pin(IDM, "_iter_hashitems", ["return self.items()"])
    pin(IMM, "_iter_hashitems", ["return self.items(multi=True)"])
    pin(IMM, "__reduce_ex__", ["return (type(self), (list(self.items(multi=True)),))"])
    MD = px.find_class(st, "MultiDict")
    pin(MD, "__getstate__", ["return dict(self.lists())"])
    pin(MD, "__setstate__", ["super().clear()", "super().update(value)"])
    pin(MD, "copy", ["return self.__class__(self)"])
    pin(MD, "deepcopy", ["return self.__class__(deepcopy(self.to_dict(flat=False), memo))"])
    pin(MD, "__copy__", ["return self.copy()"])
    pin(MD, "__deepcopy__", ["return self.deepcopy(memo=memo)"])
    init = ast.unparse(_method(MD, "__init__"))
    if "elif isinstance(mapping, MultiDict):\n        super().__init__(((k, vs[:]) for k, vs in mapping.lists()))" not in init:
        raise px.Unsupported("MultiDict.__init__: the MultiDict branch no longer copies every row (vs[:])")
    pin(px.find_class(st, "ImmutableMultiDict"), "copy", ["return MultiDict(self)"])
    pin(px.find_class(st, "ImmutableMultiDict"), "__copy__", ["return self"])
    pin(px.find_class(st, "CombinedMultiDict"), "copy", ["return MultiDict(self)"])
    pin(px.find_class(st, "CombinedMultiDict"), "__reduce_ex__", ["return (type(self), (self.dicts,))"])
    pin(px.find_class(st, "CombinedMultiDict"), "deepcopy", ["return self.__class__(deepcopy(self.dicts, memo))"])
    pin(H, "__eq__", ["if other.__class__ is not self.__class__:\n    return NotImplemented",
                      "def lowered(item: tuple[str, ...]) -> tuple[str, ...]:\n    return (item[0].lower(), *item[1:])",
                      "return set(map(lowered, other._list)) == set(map(lowered, self._list))"])
    pin(H, "copy", ["return self.__class__(self._list)"])
    for cls in (H, E):
        hs_ = [n for n in cls.body if isinstance(n, ast.Assign) and ast.unparse(n.targets[0]) == "__hash__"]
        if len(hs_) != 1 or ast.unparse(hs_[0].value) != "None":
            raise px.Unsupported(f"{cls.name}.__hash__ is no longer None")
    if [ast.unparse(b) for b in hs.bases] != ["cabc.MutableSet[str]"]:
        raise px.Unsupported("HeaderSet bases changed (its == and hash come from collections.abc.MutableSet)")
    px.write_if_changed(os.path.join(COQ, "C08", "Gen.v"), out)
    # ---- statement pins, after Gen.v is written: an edit of translated text flows into Gen.v and has to get past the proofs,
    # an edit anywhere else in the code the model / the oracles stand for is refused here
    holes = {t_: "<TRANSLATED>" for t_ in _REC["texts"] if len(t_) >= 8}
    fs = px.load("datastructures/file_storage.py")
    wr = px.load("wrappers/request.py")
    text = "# datastructures/structures.py\n" + pin_items(st, [
        "iter_multi_items", "ImmutableList", "TypeConversionDict", "ImmutableTypeConversionDict", "MultiDict", "_omd_bucket",
        "_OrderedMultiDict", "CombinedMultiDict", "ImmutableDict", "ImmutableMultiDict", "_ImmutableOrderedMultiDict", "HeaderSet"], holes)
    text += "# datastructures/headers.py\n" + pin_items(hd, ["_newline_re", "Headers", "_options_header_vkw", "_str_header_value", "EnvironHeaders"], holes)
    text += "# datastructures/mixins.py\n" + pin_items(mx, [
        "_immutable_error", "ImmutableListMixin", ("ImmutableDictMixin", idm), ("ImmutableMultiDictMixin", imm), ("ImmutableHeadersMixin", ihm)], holes)
    text += "# datastructures/file_storage.py\n" + pin_items(fs, ["FileMultiDict"], holes)
    text += "# wrappers/request.py\n" + "## Request.__init__\n" + px.skeleton(_norm(_method(px.find_class(wr, "Request"), "__init__")), holes) + "\n"
    text += "# exceptions.py\n" + pin_items(px.load("exceptions.py"), ["BadRequestKeyError"], holes)
    px.check_pin("C08", "c08_containers.txt", text, "a container method the C08 model or its oracles stand for")


# ====================================================================== harness: encodings

_S_MEMO: dict = {}


def S(s: str) -> str:
    r = _S_MEMO.get(s)
    if r is None:
        r = _S_MEMO[s] = cps(s)
    return r


def L(xs, sep="/") -> str:
    xs = list(xs)
    return sep.join(S(x) for x in xs) if xs else "~"


def ZL(xs) -> str:
    return ",".join(str(i) for i in xs) if xs else "~"


class Lazy:
    """a value that is not a str but has a string form (lazy translation strings, exception instances, ...):
    Headers stores str(value), after the same newline check"""

    def __init__(self, text):
        self.text = text

    def __str__(self):
        return self.text

    def __repr__(self):
        return f"Lazy({self.text!r})"

    def __eq__(self, other):
        return isinstance(other, Lazy) and other.text == self.text

    def __hash__(self):
        return hash(("Lazy", self.text))


MULTI = (list, tuple, set)     # the value kinds a plain mapping may hold for several values of one key


def hv(v) -> str:          # Headers value: a str, an int, or any other object (the model sees its str() form)
    if isinstance(v, str):
        return "s" + S(v)
    if isinstance(v, int) and not isinstance(v, bool):
        return "i" + str(v)
    return "s" + S(str(v))


def hvl(vs, sep="/") -> str:
    return sep.join(hv(v) for v in vs) if vs else "~"


def kvs(pairs, f) -> str:
    pairs = list(pairs)
    return "/".join(f"{S(k)}={f(v)}" for k, v in pairs) if pairs else "~"


def hmv(v) -> str:
    return "l" + hvl(list(v), "+") if isinstance(v, MULTI) else "v" + hv(v)


def mv(v) -> str:
    return "l" + L(list(v), "+") if isinstance(v, MULTI) else "v" + S(v)


def klists(d) -> str:      # MultiDict state as dict key -> list
    return kvs(d.items() if isinstance(d, dict) else d, lambda l: L(l, "+"))


def harg_tok(a) -> str:
    kind, val = a
    if kind == "p":
        return "p" + kvs(val, hv)
    if kind == "d":
        return "d" + kvs(val.items(), hmv)
    if kind == "m":
        return "m" + klists(val)
    if kind == "h":
        return "h" + kvs(val, S)
    raise ValueError(kind)


def marg_tok(a) -> str:
    kind, val = a
    if kind == "p":
        return "p" + kvs(val, S)
    if kind == "d":
        return "d" + kvs(val.items(), mv)
    if kind == "m":
        return "m" + klists(val)
    raise ValueError(kind)


def oz(x) -> str:
    return "n" if x is None else str(x)


EXN = (KeyError, IndexError, TypeError, ValueError)


def exn_name(e: BaseException) -> str:
    for c in EXN:
        if isinstance(e, c):
            return "E" + c.__name__
    return "E" + type(e).__name__


def O(v) -> str:
    """canonical text of an observed Python value (mirror of driver.ml pout)"""
    if v is None:
        return "N"
    if isinstance(v, bool):
        return "B1" if v else "B0"
    if isinstance(v, int):
        return "I" + str(v)
    if isinstance(v, str):
        return "S" + S(v)
    raise TypeError(v)


def OL(xs) -> str:
    return "L" + L(xs)


def OQ(pairs) -> str:
    return "Q" + kvs(pairs, S)


def OM(lists) -> str:
    return "M" + kvs(lists, lambda l: L(l, "+"))


def attempt(fn, conv=O):
    try:
        return conv(fn())
    except Exception as e:  # noqa: BLE001
        return exn_name(e)


# ====================================================================== harness: implementation runners

def make_arg(a, ds):
    """materialise a constructor/update argument: ('p', pairs) | ('d', dict) | ('m', dict of lists) | ('h', pairs)"""
    kind, val = a
    if kind == "p":
        return list(val)
    if kind == "d":
        return dict(val)
    if kind == "m":
        m = ds.MultiDict()
        for k, vs in (val.items() if isinstance(val, dict) else val):
            m.setlist(k, vs)
        return m
    if kind == "h":
        return ds.Headers(list(val))
    raise ValueError(kind)


def hs_obs(hs, keys, idxs) -> str:
    out = [OL(hs._headers), OL(sorted(hs._set)), O(len(hs)), O(bool(hs)), O(hs.to_header()),
           OL(sorted(hs.as_set(preserve_casing=True)))]
    out += [O(hs.find(k)) for k in keys]
    out += [attempt(lambda k=k: hs.index(k)) for k in keys]
    out += [O(k in hs) for k in keys]
    out += [attempt(lambda i=i: hs[i]) for i in idxs]
    return "|".join(out)


_OBS_MEMO: dict = {}
FRESH = [False]     # random sequences always recompute; exhaustive enumeration revisits the same states very often


def hs_obs_c(hs, keys, idxs) -> str:
    if FRESH[0]:
        return hs_obs(hs, keys, idxs)
    key = ("hs", tuple(hs._headers), frozenset(hs._set))
    r = _OBS_MEMO.get(key)
    if r is None:
        r = _OBS_MEMO[key] = hs_obs(hs, keys, idxs)
    return r


def hs_apply(hs, op):
    n = op[0]
    if n == "add":
        return hs.add(op[1])
    if n == "remove":
        return hs.remove(op[1])
    if n == "update":
        return hs.update(list(op[1]))
    if n == "discard":
        return hs.discard(op[1])
    if n == "clear":
        return hs.clear()
    if n == "del":
        del hs[op[1]]
        return None
    if n == "set":
        hs[op[1]] = op[2]
        return None
    raise ValueError(op)


def hs_tok(op) -> str:
    n = op[0]
    if n in ("add", "remove", "discard"):
        return f"{n}:{S(op[1])}"
    if n == "update":
        return f"update:{L(op[1])}"
    if n == "clear":
        return "clear"
    if n == "del":
        return f"del:{op[1]}"
    return f"set:{op[1]}:{S(op[2])}"


def hd_obs(h, keys, idxs) -> str:
    lst = list(h)
    out = [OQ(lst), O(len(h)), OL(h.keys()), OL(h.keys(lower=True)), OL(h.values()), OQ(h.items(lower=True)), O(str(h))]
    out += [attempt(lambda k=k: h[k]) for k in keys]
    out += [O(h.get(k)) for k in keys]
    out += [OL(h.getlist(k)) for k in keys]
    out += [O(k in h) for k in keys]
    out += [attempt(lambda i=i: h[i], lambda p: "P" + S(p[0]) + "=" + S(p[1])) for i in idxs]
    out += [attempt(lambda: list(h[1:]), OQ), attempt(lambda: list(h[:-1]), OQ), attempt(lambda: list(h[-2:5]), OQ),
            attempt(lambda: list(h[2:1]), OQ)]
    return "|".join(out)


def hd_obs_c(h, keys, idxs) -> str:
    if FRESH[0]:
        return hd_obs(h, keys, idxs)
    key = ("hd", tuple(h._list))
    r = _OBS_MEMO.get(key)
    if r is None:
        r = _OBS_MEMO[key] = hd_obs(h, keys, idxs)
    return r


def hd_apply(h, op, ds):
    n = op[0]
    if n == "add":
        return h.add(op[1], op[2])
    if n == "set":
        return h.set(op[1], op[2])
    if n == "setlist":
        return h.setlist(op[1], list(op[2]))
    if n == "setdefault":
        return h.setdefault(op[1], op[2])
    if n == "setlistdefault":
        return h.setlistdefault(op[1], list(op[2]))
    if n == "extend":
        return h.extend(make_arg(op[1], ds))
    if n == "update":
        return h.update(make_arg(op[1], ds))
    if n == "ior":
        h |= make_arg(op[1], ds)
        return None
    if n == "delkey":
        del h[op[1]]
        return None
    if n == "delidx":
        del h[op[1]]
        return None
    if n == "delslice":
        del h[op[1]:op[2]]
        return None
    if n == "remove":
        return h.remove(op[1])
    if n == "pop":
        return h.pop()
    if n == "popidx":
        return h.pop(op[1])
    if n == "popkey":
        return h.pop(op[1])
    if n == "popkeyd":
        return h.pop(op[1], op[2])
    if n == "popitem":
        return h.popitem()
    if n == "clear":
        return h.clear()
    if n == "setkey":
        h[op[1]] = op[2]
        return None
    if n == "setidx":
        h[op[1]] = (op[2], op[3])
        return None
    if n == "setslice":
        h[op[1]:op[2]] = list(op[3])
        return None
    raise ValueError(op)


def hd_tok(op) -> str:
    n = op[0]
    if n in ("add", "set", "setdefault", "setkey"):
        return f"{n}:{S(op[1])}:{hv(op[2])}"
    if n in ("setlist", "setlistdefault"):
        return f"{n}:{S(op[1])}:{hvl(op[2])}"
    if n in ("extend", "update", "ior"):
        return f"{n}:{harg_tok(op[1])}"
    if n in ("delkey", "remove", "popkey"):
        return f"{n}:{S(op[1])}"
    if n in ("delidx", "popidx"):
        return f"{n}:{op[1]}"
    if n == "delslice":
        return f"delslice:{oz(op[1])}:{oz(op[2])}"
    if n in ("pop", "popitem", "clear"):
        return n
    if n == "popkeyd":
        return f"popkeyd:{S(op[1])}:{S(op[2])}"
    if n == "setidx":
        return f"setidx:{op[1]}:{S(op[2])}:{hv(op[3])}"
    if n == "setslice":
        return f"setslice:{oz(op[1])}:{oz(op[2])}:{kvs(op[3], hv)}"
    raise ValueError(op)


def hd_res(v) -> str:
    if isinstance(v, tuple):
        return "P" + S(v[0]) + "=" + S(v[1])
    if isinstance(v, list):
        return OL(v)
    return O(v)


def md_obs(d, keys) -> str:
    out = [OM(d.lists()), O(len(d)), OL(d.keys()), attempt(lambda: list(d.items()), OQ), OQ(d.items(multi=True)),
           attempt(lambda: list(d.values()), OL), OL("+".join(vs) for vs in d.listvalues())]
    out += [attempt(lambda k=k: d[k]) for k in keys]
    out += [attempt(lambda k=k: d.get(k)) for k in keys]
    out += [OL(d.getlist(k)) for k in keys]
    out += [O(k in d) for k in keys]
    return "|".join(out)


def md_obs_c(d, keys) -> str:
    if FRESH[0]:
        return md_obs(d, keys)
    key = ("md", tuple((k, tuple(v)) for k, v in dict.items(d)))
    r = _OBS_MEMO.get(key)
    if r is None:
        r = _OBS_MEMO[key] = md_obs(d, keys)
    return r


def md_apply(d, op, ds):
    n = op[0]
    if n == "setitem":
        d[op[1]] = op[2]
        return None
    if n == "add":
        return d.add(op[1], op[2])
    if n == "setlist":
        return d.setlist(op[1], list(op[2]))
    if n == "setdefault":
        return d.setdefault(op[1], op[2])
    if n == "setlistdefault":
        return list(d.setlistdefault(op[1], None if op[2] is None else list(op[2])))
    if n == "update":
        return d.update(make_arg(op[1], ds))
    if n == "ior":
        d |= make_arg(op[1], ds)
        return None
    if n == "pop":
        return d.pop(op[1])
    if n == "popd":
        return d.pop(op[1], op[2])
    if n == "popitem":
        return d.popitem()
    if n == "poplist":
        return list(d.poplist(op[1]))
    if n == "popitemlist":
        k, l = d.popitemlist()
        return ("K", k, list(l))
    if n == "clear":
        return d.clear()
    if n == "del":
        del d[op[1]]
        return None
    raise ValueError(op)


def md_tok(op) -> str:
    n = op[0]
    if n in ("setitem", "add", "setdefault", "popd"):
        return f"{n}:{S(op[1])}:{S(op[2])}"
    if n == "setlist":
        return f"setlist:{S(op[1])}:{L(op[2])}"
    if n == "setlistdefault":
        return f"setlistdefault:{S(op[1])}:{'n' if op[2] is None else L(op[2])}"
    if n in ("update", "ior"):
        return f"{n}:{marg_tok(op[1])}"
    if n in ("pop", "poplist", "del"):
        return f"{n}:{S(op[1])}"
    return n


def md_res(v) -> str:
    if isinstance(v, tuple) and v and v[0] == "K":
        return "K" + S(v[1]) + "=" + L(v[2], "+")
    if isinstance(v, tuple):
        return "P" + S(v[0]) + "=" + S(v[1])
    if isinstance(v, list):
        return OL(v)
    return O(v)


def cmd_obs(c, keys) -> str:
    out = [OM(c.lists()), O(len(c)), OL(sorted(c.keys())), attempt(lambda: list(c.items()), OQ), OQ(c.items(multi=True)),
           attempt(lambda: list(c.values()), OL), OL("+".join(vs) for vs in c.listvalues())]
    out += [attempt(lambda k=k: c[k]) for k in keys]
    out += [attempt(lambda k=k: c.get(k)) for k in keys]
    out += [OL(c.getlist(k)) for k in keys]
    out += [O(k in c) for k in keys]
    return "|".join(out)


def eh_obs(e, keys) -> str:
    lst = list(e)
    out = [OQ(lst), O(len(e)), OL(e.keys()), OL(e.values())]
    out += [attempt(lambda k=k: e[k]) for k in keys]
    out += [O(e.get(k)) for k in keys]
    out += [OL(e.getlist(k)) for k in keys]
    out += [O(k in e) for k in keys]
    return "|".join(out)


# ====================================================================== harness: abstract reference models (oracles)
# Python transcriptions of the documented abstract models: a case-insensitive ordered set, an ordered list of
# pairs with case-insensitive keys, an insertion-ordered multimap.  They judge the implementation directly
# (chk.fail); the Coq model is compared separately (chk.broken on a mismatch).

class Raised:
    def __init__(self, cls):
        self.cls = cls

    def __eq__(self, other):
        return isinstance(other, Raised) and other.cls is self.cls

    def __repr__(self):
        return f"raises {self.cls.__name__}"


def _idx(n, i):
    j = i + n if i < 0 else i
    if not 0 <= j < n:
        raise IndexError
    return j


def ref_hs(b: list, op):
    """(after list, result) for a case-insensitive ordered set; None result = ambiguous in the abstract model"""
    low = [x.lower() for x in b]
    n = op[0]
    a = list(b)
    if n in ("add", "update"):
        for h in ([op[1]] if n == "add" else op[1]):
            if h.lower() not in [x.lower() for x in a]:
                a.append(h)
        return a, "ok"
    if n in ("remove", "discard"):
        if op[1].lower() not in low:
            return a, (Raised(KeyError) if n == "remove" else "ok")
        del a[low.index(op[1].lower())]
        return a, "ok"
    if n == "clear":
        return [], "ok"
    if n == "del":
        try:
            del a[_idx(len(a), op[1])]
        except IndexError:
            return a, Raised(IndexError)
        return a, "ok"
    if n == "set":
        try:
            j = _idx(len(a), op[1])
        except IndexError:
            return a, Raised(IndexError)
        if op[2].lower() in low[:j] + low[j + 1:]:
            return None, None      # would create a case-insensitive duplicate: not defined by a set
        a[j] = op[2]
        return a, "ok"
    raise ValueError(op)


def _sv(v):
    s = v if isinstance(v, str) else str(v)
    if "\r" in s or "\n" in s:
        raise ValueError
    return s


def _ref_set(a, k, s):
    out, done = [], False
    for kk, vv in a:
        if kk.lower() == k.lower():
            if not done:
                out.append((k, s))
                done = True
        else:
            out.append((kk, vv))
    if not done:
        out.append((k, s))
    a[:] = out


def _ref_setlist(a, k, vs):
    vs = list(vs)
    if vs:
        _ref_set(a, k, _sv(vs[0]))
        for v in vs[1:]:
            a.append((k, _sv(v)))
    else:
        a[:] = [(kk, vv) for kk, vv in a if kk.lower() != k.lower()]


def _flat(arg):
    kind, val = arg
    if kind in ("p", "h"):
        return list(val)
    if kind == "d":
        return [(k, x) for k, v in val.items() for x in (v if isinstance(v, MULTI) else [v])]
    return [(k, x) for k, vs in (val.items() if isinstance(val, dict) else val) for x in vs]


def ref_hd(b: list, op):
    """(after list, result) for an ordered list of pairs with case-insensitive keys; the after list is the state
    reached when a later value of a multi-value operation is refused (earlier ones are already stored)"""
    a = list(b)
    n = op[0]

    def get(k):
        for kk, vv in a:
            if kk.lower() == k.lower():
                return vv
        raise KeyError

    def getlist(k):
        return [vv for kk, vv in a if kk.lower() == k.lower()]
    try:
        if n == "add":
            a.append((op[1], _sv(op[2])))
            return a, None
        if n in ("set", "setkey"):
            _ref_set(a, op[1], _sv(op[2]))
            return a, None
        if n == "setlist":
            _ref_setlist(a, op[1], op[2])
            return a, None
        if n == "setdefault":
            try:
                return a, get(op[1])
            except KeyError:
                _ref_set(a, op[1], _sv(op[2]))
                return a, get(op[1])
        if n == "setlistdefault":
            if not getlist(op[1]):
                _ref_setlist(a, op[1], op[2])
            return a, getlist(op[1])
        if n == "extend":
            for k, v in _flat(op[1]):
                a.append((k, _sv(v)))
            return a, None
        if n in ("update", "ior"):
            kind, val = op[1]
            if kind == "p":
                for k, v in val:
                    _ref_set(a, k, _sv(v))
            elif kind == "d":
                for k, v in val.items():
                    if isinstance(v, MULTI):
                        _ref_setlist(a, k, v)
                    else:
                        _ref_set(a, k, _sv(v))
            elif kind == "m":
                for k, vs in (val.items() if isinstance(val, dict) else val):
                    _ref_setlist(a, k, vs)
            else:
                for k, _ in val:
                    _ref_setlist(a, k, [vv for kk, vv in val if kk.lower() == k.lower()])
            return a, None
        if n in ("delkey", "remove"):
            _ref_setlist(a, op[1], [])
            return a, None
        if n == "delidx":
            del a[_idx(len(a), op[1])]
            return a, None
        if n == "delslice":
            del a[op[1]:op[2]]
            return a, None
        if n in ("pop", "popitem"):
            if not a:
                raise IndexError
            return a, a.pop()
        if n == "popidx":
            return a, a.pop(_idx(len(a), op[1]))
        if n in ("popkey", "popkeyd"):
            try:
                rv = get(op[1])
            except KeyError:
                if n == "popkeyd":
                    return a, op[2]
                raise
            _ref_setlist(a, op[1], [])
            return a, rv
        if n == "clear":
            return [], None
        if n == "setidx":
            s = _sv(op[3])
            a[_idx(len(a), op[1])] = (op[2], s)
            return a, None
        if n == "setslice":
            a[op[1]:op[2]] = [(k, _sv(v)) for k, v in op[3]]
            return a, None
    except (KeyError, IndexError, ValueError) as e:
        return a, Raised(type(e))
    raise ValueError(op)


def ref_md(b: dict, op):
    """(after dict key -> list, result) for an insertion-ordered multimap"""
    a = {k: list(v) for k, v in b.items()}
    n = op[0]
    try:
        if n == "setitem":
            a[op[1]] = [op[2]]
            return a, None
        if n == "add":
            a.setdefault(op[1], []).append(op[2])
            return a, None
        if n == "setlist":
            a[op[1]] = list(op[2])
            return a, None
        if n == "setdefault":
            if op[1] not in a:
                a[op[1]] = [op[2]]
            if not a[op[1]]:
                raise KeyError
            return a, a[op[1]][0]
        if n == "setlistdefault":
            if op[1] not in a:
                a[op[1]] = list(op[2] or ())
            return a, list(a[op[1]])
        if n in ("update", "ior"):
            for k, v in _flat(op[1]):
                a.setdefault(k, []).append(v)
            return a, None
        if n in ("pop", "popd"):
            if op[1] in a:
                l = a.pop(op[1])
                if l:
                    return a, l[0]
            if n == "popd":
                return a, op[2]
            raise KeyError
        if n == "popitem":
            if not a:
                raise KeyError
            k, l = a.popitem()
            if not l:
                raise KeyError
            return a, (k, l[0])
        if n == "poplist":
            return a, a.pop(op[1], [])
        if n == "popitemlist":
            if not a:
                raise KeyError
            k, l = a.popitem()
            return a, ("K", k, l)
        if n == "clear":
            return {}, None
        if n == "del":
            del a[op[1]]
            return a, None
    except KeyError:
        return a, Raised(KeyError)
    raise ValueError(op)


# ====================================================================== harness: generators

PROBE = ["a", "A", "b", "B", "x"]
IDXS = [-3, -1, 0, 1, 2, 7]
BAD = "x\ny"

HS_ITEMS = ["a", "A", "b", "B"]
HS_INITS = [[], ["a"], ["a", "b"], ["A", "b"], ["Foo", "bar", "x y"], ["a", "A"], ["b", "a", "B"]]


def hs_alphabet(full: bool):
    ops = []
    for x in HS_ITEMS if full else ["a", "A", "B"]:
        ops += [("add", x), ("remove", x), ("discard", x)]
    for l in ([[], ["a", "A"], ["b", "a"], ["B"]] if full else [["b", "A"]]):
        ops.append(("update", tuple(l)))
    ops.append(("clear",))
    for i in ([0, -1, 1, 5] if full else [0, -1]):
        ops.append(("del", i))
    for i in ([0, 1, -1, 5] if full else [0, -1]):
        for v in (HS_ITEMS if full else ["A", "b"]):
            ops.append(("set", i, v))
    return ops


def hs_random_op(rng, items=None):
    items = items or HS_ITEMS + ["Accept", "accept-encoding", "x y", "", 'q"t', "é"]
    r = rng.random()
    if r < 0.25:
        return ("add", rng.choice(items))
    if r < 0.45:
        return ("remove", rng.choice(items))
    if r < 0.6:
        return ("discard", rng.choice(items))
    if r < 0.75:
        return ("update", tuple(rng.choice(items) for _ in range(rng.randint(0, 4))))
    if r < 0.78:
        return ("clear",)
    if r < 0.88:
        return ("del", rng.randint(-4, 4))
    return ("set", rng.randint(-4, 4), rng.choice(items))


HD_KEYS = ["a", "A", "b"]
HD_VALS = ["1", 2]
HD_INITS = [None, ("p", (("a", "1"), ("A", 2), ("b", "1"))), ("d", {"a": "1", "b": ["1", 2]}),
            ("m", {"a": ["1", "2"], "B": ["1"]}), ("h", (("b", "2"), ("a", "1"), ("B", "1"))),
            ("p", (("a", "1"), ("b", "2"), ("a", "2"), ("c", "3")))]
HD_ARGS = [("p", (("a", "1"), ("A", 2))), ("d", {"A": 2, "b": ["1", "2"]}), ("d", {"a": []}),
           ("m", {"a": ["2"], "A": []}), ("h", (("b", "1"), ("B", "2"), ("a", "1"))), ("p", (("b", "1"), ("a", BAD))),
           ("d", {"a": ("1", 2), "b": {"3"}, "c": "4"}), ("d", {"b": (), "a": Lazy("lazy")}), ("p", (("a", Lazy(BAD)), ("b", b"by\ntes")))]


def hd_alphabet(full: bool):
    ops = []
    if not full:
        for k in ("a", "B"):
            ops += [("add", k, "1"), ("set", k, 2), ("setlist", k, ("1", 2)), ("setdefault", k, "1"), ("delkey", k), ("popkey", k),
                    ("setlistdefault", k, ("2",))]
        ops += [("set", "a", BAD), ("setlist", "a", ()), ("update", HD_ARGS[1]), ("extend", HD_ARGS[6]), ("delidx", 0),
                ("setslice", 1, None, (("a", "1"), ("B", 2))), ("pop",), ("clear",)]
        return ops
    ks = HD_KEYS
    vs = HD_VALS + [BAD]
    for k in ks:
        for v in vs:
            ops += [("add", k, v), ("set", k, v)]
        for v in vs:
            ops += [("setdefault", k, v), ("setkey", k, v)]
        for l in [(), ("1",), ("1", 2), ("1", BAD)]:
            ops.append(("setlist", k, l))
        for l in [(), ("1", 2), (BAD,)]:
            ops.append(("setlistdefault", k, l))
        ops += [("delkey", k), ("popkey", k), ("remove", k), ("popkeyd", k, "d")]
    for a in HD_ARGS:
        ops += [("extend", a), ("update", a)]
    ops += [("ior", HD_ARGS[1]), ("ior", HD_ARGS[0]), ("ior", HD_ARGS[6])]
    for i in [0, -1, 3]:
        ops += [("delidx", i), ("popidx", i)]
        for v in ["1", BAD]:
            ops.append(("setidx", i, "b", v))
    for sl in [(1, None), (None, -1), (2, 1)]:
        ops.append(("delslice",) + sl)
        ops.append(("setslice",) + sl + ((("a", "1"), ("B", 2)),))
    ops.append(("setslice", 0, 1, (("a", "1"), ("b", BAD))))
    ops += [("pop",), ("popitem",), ("clear",)]
    return ops


def hd_random_op(rng, keys=None):
    keys = keys or HD_KEYS + ["B", "Content-Type", "content-type", "X-Foo"]
    vals = ["1", 2, "text/plain", "", BAD, "a\rb", -5, "é", Lazy("lazy"), Lazy(BAD), b"by\ntes"]

    def k():
        return rng.choice(keys)

    def v():
        return rng.choice(vals)

    def vl():
        return tuple(v() for _ in range(rng.randint(0, 3)))

    def arg():
        t = rng.choice("pdmh")
        if t == "p":
            return ("p", tuple((k(), v()) for _ in range(rng.randint(0, 3))))
        if t == "d":
            return ("d", {k(): (rng.choice([list, tuple, set])(vl()) if rng.random() < 0.5 else v()) for _ in range(rng.randint(0, 3))})
        if t == "m":
            return ("m", {k(): [str(x) for x in vl() if isinstance(x, str) and "\n" not in x and "\r" not in x]
                          for _ in range(rng.randint(0, 3))})
        return ("h", tuple((k(), rng.choice(["1", "2", "x"])) for _ in range(rng.randint(0, 3))))
    n = rng.choice(["add", "add", "set", "set", "setlist", "setdefault", "setlistdefault", "extend", "update", "ior", "delkey",
                    "delidx", "delslice", "remove", "pop", "popidx", "popkey", "popkeyd", "popitem", "clear", "setkey", "setidx",
                    "setslice"])
    if n in ("add", "set", "setdefault", "setkey"):
        return (n, k(), v())
    if n in ("setlist", "setlistdefault"):
        return (n, k(), vl())
    if n in ("extend", "update", "ior"):
        return (n, arg())
    if n in ("delkey", "remove", "popkey"):
        return (n, k())
    if n in ("delidx", "popidx"):
        return (n, rng.randint(-5, 5))
    if n in ("delslice",):
        return (n, rng.choice([None, -2, 0, 1, 3]), rng.choice([None, -1, 0, 2, 9]))
    if n == "popkeyd":
        return (n, k(), "dflt")
    if n == "setidx":
        return (n, rng.randint(-5, 5), k(), v())
    if n == "setslice":
        return (n, rng.choice([None, -2, 0, 1, 3]), rng.choice([None, -1, 0, 2, 9]),
                tuple((k(), v()) for _ in range(rng.randint(0, 3))))
    return (n,)


MD_KEYS = ["a", "A", "b"]
MD_VALS = ["1", "2"]
MD_INITS = [None, ("p", (("a", "1"), ("b", "2"), ("a", "2"))), ("d", {"a": "1", "A": "2"}),
            ("d", {"a": ["1", "2"], "b": [], "A": ("2",)}), ("m", {"b": ["2", "1"], "a": ["1"]}), ("m", {"a": [], "b": ["1"]})]
MD_CTOR_EXTRA = [("d", {"k": []}), ("d", {"k": (), "a": "1"}), ("d", {"a": ["1"], "k": set(), "b": ("2", "3")}), ("d", {"k": [], "l": ()}),
                 ("p", ()), ("d", {})]
MD_ARGS = [("p", (("a", "1"), ("a", "2"), ("b", "1"))), ("d", {"a": "2", "b": ["1", "2"]}), ("d", {"b": []}),
           ("m", {"A": ["2"], "a": []}), ("d", {"a": ("1", "2"), "b": "3"}), ("d", {"b": {"1"}, "a": (), "A": ["2"]})]


def md_alphabet(full: bool):
    ops = []
    ks = MD_KEYS if full else ["a", "b"]
    vs = MD_VALS if full else ["1"]
    for k in ks:
        for v in vs:
            ops += [("setitem", k, v), ("add", k, v), ("setdefault", k, v)]
        for l in ([(), ("1",), ("2", "1")] if full else [(), ("2", "1")]):
            ops.append(("setlist", k, l))
        for l in ([None, (), ("1", "2")] if full else [None]):
            ops.append(("setlistdefault", k, l))
        ops += [("pop", k), ("poplist", k), ("del", k)]
        if full:
            ops.append(("popd", k, "d"))
    for a in (MD_ARGS if full else MD_ARGS[4:5]):
        ops.append(("update", a))
    if full:
        ops += [("ior", MD_ARGS[1]), ("ior", MD_ARGS[0]), ("ior", MD_ARGS[4])]
    ops += [("popitem",), ("popitemlist",), ("clear",)]
    return ops


def md_random_op(rng):
    keys = MD_KEYS + ["B", "key", ""]
    vals = MD_VALS + ["", "v", "é"]

    def k():
        return rng.choice(keys)

    def v():
        return rng.choice(vals)

    def vl():
        return tuple(v() for _ in range(rng.randint(0, 3)))

    def arg():
        t = rng.choice("pdm")
        if t == "p":
            return ("p", tuple((k(), v()) for _ in range(rng.randint(0, 3))))
        if t == "d":
            return ("d", {k(): (rng.choice([list, tuple, set])(vl()) if rng.random() < 0.5 else v()) for _ in range(rng.randint(0, 3))})
        return ("m", {k(): list(vl()) for _ in range(rng.randint(0, 3))})
    n = rng.choice(["setitem", "add", "add", "setlist", "setdefault", "setlistdefault", "update", "ior", "pop", "popd", "popitem",
                    "poplist", "popitemlist", "clear", "del"])
    if n in ("setitem", "add", "setdefault"):
        return (n, k(), v())
    if n == "setlist":
        return (n, k(), vl())
    if n == "setlistdefault":
        return (n, k(), rng.choice([None, vl()]))
    if n in ("update", "ior"):
        return (n, arg())
    if n in ("pop", "poplist", "del"):
        return (n, k())
    if n == "popd":
        return (n, k(), "dflt")
    return (n,)


def seqs(alphabet, n):
    import itertools
    return itertools.product(alphabet, repeat=n)


# ====================================================================== harness: running one sequence

def _ri(hs) -> bool:
    return hs._set == {x.lower() for x in hs._headers} and len(hs._set) == len(hs._headers)


def run_hs(chk, ds, init, ops, oracle=True) -> str:
    from werkzeug.http import quote_header_value
    fired = []
    hs = ds.HeaderSet(list(init), on_update=lambda s: fired.append(1))
    obs = [hs_obs_c(hs, PROBE, IDXS)]
    ok = oracle
    if ok and not _ri(hs):
        chk.fail("headerset-init-ci-duplicate", "HeaderSet constructed from items that differ only in letter case: "
                 f"_headers={hs._headers!r} _set={sorted(hs._set)!r} len={len(hs)}", {"kind": "hs", "init": list(init), "ops": []})
        ok = False
    for n, op in enumerate(ops):
        before = list(hs._headers)
        nf = len(fired)
        try:
            hs_apply(hs, op)
            res = "N"
        except Exception as e:  # noqa: BLE001
            res = exn_name(e)
        f = len(fired) > nf
        obs.append(res + "|" + O(f) + "|" + hs_obs_c(hs, PROBE, IDXS))
        if not ok:
            continue
        case = {"kind": "hs", "init": list(init), "ops": [list(o) for o in ops[:n + 1]]}
        exp, er = ref_hs(before, op)
        if exp is None:
            if not _ri(hs):
                chk.fail("headerset-setitem-ci-duplicate", f"hs[{op[1]}] = {op[2]!r} on {before!r} gives _headers={hs._headers!r} "
                         f"_set={sorted(hs._set)!r} len={len(hs)}: a case-insensitive duplicate", case)
                ok = False
            continue
        got = list(hs)
        low = [x.lower() for x in exp]
        bad = None
        if got != exp:
            bad = f"items {got!r}, abstract set gives {exp!r}"
        elif (res == "N") != (er == "ok") or (isinstance(er, Raised) and res != "E" + er.cls.__name__):
            bad = f"result {res}, abstract set gives {er!r}"
        elif not _ri(hs):
            bad = f"_set={sorted(hs._set)!r} does not describe _headers={hs._headers!r}"
        elif len(hs) != len(exp) or bool(hs) != bool(exp):
            bad = f"len {len(hs)} / bool {bool(hs)} for items {exp!r}"
        elif hs.to_header() != ", ".join(quote_header_value(x) for x in exp) or str(hs) != hs.to_header():
            bad = f"to_header {hs.to_header()!r}"
        elif hs.as_set() != set(low) or hs.as_set(preserve_casing=True) != set(exp):
            bad = "as_set"
        else:
            for k in PROBE:
                want = low.index(k.lower()) if k.lower() in low else -1
                if (k in hs) != (want >= 0) or hs.find(k) != want:
                    bad = f"contains/find({k!r}) = {k in hs}/{hs.find(k)} for items {exp!r}"
                    break
                try:
                    ix = hs.index(k)
                except IndexError:
                    ix = -1
                if ix != want:
                    bad = f"index({k!r})"
                    break
        if bad is None and exp != before and not f:
            bad = "items changed but on_update was not called"
        if bad:
            chk.fail("headerset-model", f"after {op!r} on {before!r}: {bad}", case)
            ok = False
    return " ".join(obs)


def _clean(lst) -> bool:
    return all(isinstance(v, str) and "\r" not in v and "\n" not in v for _, v in lst)


def _hd_laws(h, lst):
    """read-consistency laws of Headers against its own pair list; returns a description or None"""
    if list(h.keys()) != [k for k, _ in lst] or list(h.values()) != [v for _, v in lst] or len(h) != len(lst):
        return "keys/values/len disagree with the pair list"
    if list(h.items()) != lst or h.to_wsgi_list() != lst or list(h.items(lower=True)) != [(k.lower(), v) for k, v in lst]:
        return "items/to_wsgi_list disagree with the pair list"
    for k in PROBE:
        row = [v for kk, v in lst if kk.lower() == k.lower()]
        if h.getlist(k) != row or h.get_all(k) != row:
            return f"getlist({k!r}) is not the row of the pair list"
        if h.get(k) != (row[0] if row else None) or (k in h) != bool(row):
            return f"get/contains({k!r}) disagree with getlist"
        try:
            v = h[k]
        except KeyError:
            v = None
        if v != (row[0] if row else None):
            return f"h[{k!r}] disagrees with getlist"
    return None


def run_hd(chk, ds, init, ops, oracle=True) -> str:
    try:
        h = ds.Headers(None if init is None else make_arg(init, ds))
    except Exception as e:  # noqa: BLE001
        return exn_name(e)
    obs = [hd_obs_c(h, PROBE, IDXS)]
    ok = oracle
    for n, op in enumerate(ops):
        before = list(h)
        try:
            res = hd_res(hd_apply(h, op, ds))
            r = None
        except Exception as e:  # noqa: BLE001
            res = exn_name(e)
            r = e
        obs.append(res + "|" + hd_obs_c(h, PROBE, IDXS))
        if not ok:
            continue
        case = {"kind": "hd", "init": init, "ops": [list(o) for o in ops[:n + 1]]}
        lst = list(h)
        exp, er = ref_hd(before, op)
        bad = None
        if not _clean(lst):
            chk.fail("header-value-newline", f"after {op!r} a stored header value is not a newline-free str: {lst!r}", case)
            ok = False
            continue
        if lst != exp:
            bad = f"pairs {lst!r}, abstract pair list gives {exp!r}"
        elif isinstance(er, Raised):
            if res != "E" + er.cls.__name__:
                bad = f"result {res}, abstract pair list {er!r}"
        elif res != hd_res(er):
            bad = f"result {res}, abstract pair list gives {er!r}"
        else:
            bad = _hd_laws(h, lst)
        if bad is None and not (h.copy() == h and list(h.copy()) == lst):
            bad = "copy() is not equal to the original"
        if bad:
            chk.fail("headers-model", f"after {op!r} on {before!r}: {bad}", case)
            ok = False
    return " ".join(obs)


def _md_raw(d) -> dict:
    return {k: list(v) for k, v in dict.items(d)}


def _md_laws(chk, d, raw, case) -> str | None:
    if list(d.keys()) != list(raw) or len(d) != len(raw) or list(d) != list(raw):
        return "keys/len/iter disagree with the stored rows"
    if list(d.lists()) != list(raw.items()) or d.to_dict(flat=False) != raw or [list(x) for x in d.listvalues()] != list(raw.values()):
        return "lists/to_dict(flat=False)/listvalues disagree with the stored rows"
    if list(d.items(multi=True)) != [(k, v) for k, vs in raw.items() for v in vs]:
        return "items(multi=True) is not the flattened rows"
    for k in PROBE:
        row = raw.get(k, [])
        if d.getlist(k) != row or (k in d) != (k in raw):
            return f"getlist/contains({k!r})"
        if d.get(k) != (row[0] if row else None):
            return f"get({k!r})"
        try:
            v = d[k]
        except KeyError:
            v = None
        if v != (row[0] if row else None):
            return f"d[{k!r}]"
    firsts = [(k, vs[0]) for k, vs in raw.items() if vs]
    try:
        got = (list(d.items()), list(d.values()), d.to_dict())
    except IndexError:
        if any(not vs for vs in raw.values()):
            chk.fail("multidict-empty-list-items", f"items()/values()/to_dict() raise IndexError when a key holds an empty list: {raw!r}", case)
            return "stop"
        return "items()/values() raise IndexError"
    if any(not vs for vs in raw.values()):
        return "items() over an empty row did not raise (model expects IndexError)"
    if got != (firsts, [v for _, v in firsts], dict(firsts)):
        return "items()/values()/to_dict() are not the first value of every row"
    return None


def run_md(chk, ds, init, ops, oracle=True, cls=None) -> str:
    cls = cls or ds.MultiDict
    d = cls(None if init is None else make_arg(init, ds))
    obs = [md_obs_c(d, PROBE)]
    ok = oracle
    immutable = cls is not ds.MultiDict
    if ok:
        # the constructor: a mapping contributes one pair per element of a list / tuple / set value (none for an empty one),
        # pairs are grouped by key, another MultiDict is copied row by row
        want = None
        if init is None:
            want = {}
        elif init[0] in ("p", "d"):
            want = {}
            for k, v in _flat(init):
                want.setdefault(k, []).append(v)
        raw0 = _md_raw(d)
        if want is not None and (raw0 != want or list(raw0) != list(want)):
            chk.fail("multidict-model", f"{cls.__name__} constructed from {init[1] if init else None!r} holds {raw0!r}, the multimap of its pairs is {want!r}",
                     {"kind": "imd" if immutable else "md", "init": init, "ops": []})
            ok = False
    if ok:
        bad = _md_laws(chk, d, _md_raw(d), {"kind": "md", "init": init, "ops": []})
        if bad:
            ok = False
            if bad != "stop":
                chk.fail("multidict-model", f"after construction from {init!r}: {bad}", {"kind": "md", "init": init, "ops": []})
    for n, op in enumerate(ops):
        before = _md_raw(d)
        try:
            res = md_res(md_apply(d, op, ds))
        except Exception as e:  # noqa: BLE001
            res = exn_name(e)
        obs.append(res + "|" + md_obs_c(d, PROBE))
        if not ok:
            continue
        case = {"kind": "imd" if immutable else "md", "init": init, "ops": [list(o) for o in ops[:n + 1]]}
        raw = _md_raw(d)
        if immutable:
            if res != "ETypeError" or raw != before or list(raw) != list(before):
                chk.fail("immutable-mutated", f"{cls.__name__}: {op!r} gave {res} and left {raw!r} (before {before!r})", case)
                ok = False
            continue
        exp, er = ref_md(before, op)
        bad = None
        if raw != exp or list(raw) != list(exp):
            bad = f"rows {raw!r}, abstract multimap gives {exp!r}"
        elif isinstance(er, Raised):
            if res != "E" + er.cls.__name__:
                bad = f"result {res}, abstract multimap {er!r}"
        elif res != md_res(er):
            bad = f"result {res}, abstract multimap gives {er!r}"
        else:
            bad = _md_laws(chk, d, raw, case)
        if bad == "stop":
            ok = False
        elif bad:
            chk.fail("multidict-model", f"after {op!r} on {before!r}: {bad}", case)
            ok = False
    return " ".join(obs)


def run_cmd(chk, ds, inits, ops, oracle=True) -> str:
    dicts = [ds.MultiDict(make_arg(i, ds)) for i in inits]
    c = ds.CombinedMultiDict(dicts)
    obs = [cmd_obs(c, PROBE)]
    ok = oracle
    for n, op in enumerate(ops):
        before = [_md_raw(d) for d in dicts]
        try:
            if op[0] == "o":
                res = md_res(md_apply(c, op[1], ds))
            else:
                res = md_res(md_apply(dicts[op[1]], op[2], ds))
        except Exception as e:  # noqa: BLE001
            res = exn_name(e)
        obs.append(res + "|" + cmd_obs(c, PROBE))
        if not ok:
            continue
        case = {"kind": "cmd", "inits": inits, "ops": [list(o) for o in ops[:n + 1]]}
        raws = [_md_raw(d) for d in dicts]
        bad = None
        if op[0] == "o" and (res != "ETypeError" or raws != before):
            bad = f"mutator {op[1]!r} on the combined view gave {res}"
        merged: dict = {}
        for r in raws:
            for k, vs in r.items():
                merged.setdefault(k, []).extend(vs)
        if bad is None:
            if set(c.keys()) != set(merged) or len(c) != len(merged) or set(iter(c)) != set(merged):
                bad = "keys/len are not the union of the wrapped dicts"
            elif dict(c.lists()) != merged or list(dict(c.lists())) != list(merged) or c.to_dict(flat=False) != merged:
                bad = "lists()/to_dict(flat=False) are not the merged rows"
            elif list(c.items(multi=True)) != [(k, v) for r in raws for k, vs in r.items() for v in vs]:
                bad = "items(multi=True) is not the concatenation"
            elif c.copy() != ds.MultiDict(list(merged.items()) and [(k, v) for k, vs in merged.items() for v in vs]) and all(merged.values()):
                bad = "copy() is not the merged MultiDict"
            else:
                for k in PROBE:
                    if c.getlist(k) != merged.get(k, []) or (k in c) != (k in merged):
                        bad = f"getlist/contains({k!r})"
                        break
        if bad is None:
            firsts = [(k, vs[0]) for k, vs in merged.items() if vs]
            try:
                got = (list(c.items()), list(c.values()), c.to_dict())
                if not any(not vs for r in raws for vs in r.values()) and got != (firsts, [v for _, v in firsts], dict(firsts)):
                    bad = "items()/values()/to_dict() are not the first value per key"
            except IndexError:
                if any(not vs for r in raws for vs in r.values()):
                    chk.fail("multidict-empty-list-items", f"CombinedMultiDict items()/values() raise IndexError over an empty list: {raws!r}", case)
                    ok = False
                else:
                    bad = "items()/values() raise IndexError"
        if bad:
            chk.fail("combined-model", f"after {op!r}: {bad}; wrapped {raws!r}", case)
            ok = False
    return " ".join(obs)


ENV_KEYS = ["HTTP_A", "HTTP_X_FOO", "CONTENT_TYPE", "CONTENT_LENGTH", "HTTP_CONTENT_TYPE", "HTTP_CONTENT_LENGTH", "REQUEST_METHOD",
            "HTTP_", "http_a", "HTTP_B_", "PATH_INFO", "HTTP_ACCEPT_ENCODING"]
ENV_PROBE = ["A", "a", "X-Foo", "x_foo", "Content-Type", "content-length", "Content_Type", "Method", "", "Accept-Encoding", "B-"]


def run_eh(chk, ds, env: dict, ops, oracle=True) -> str:
    e = ds.EnvironHeaders(env)
    obs = [eh_obs(e, ENV_PROBE)]
    for op in ops:
        before = dict(env)
        try:
            res = hd_res(hd_apply(e, op, ds))
        except Exception as x:  # noqa: BLE001
            res = exn_name(x)
        obs.append(res + "|" + eh_obs(e, ENV_PROBE))
        if oracle and (env != before or res != "ETypeError"):
            chk.fail("immutable-mutated", f"EnvironHeaders: {op!r} gave {res}, environ {env!r}", {"kind": "eh", "env": before, "ops": [list(op)]})
    if oracle:
        # the view reflects the environ: every HTTP_* variable (and the two CGI content variables) is listed
        # under its header name, and looking that name up gives the environ's value
        lst = list(e)
        want, src = [], []
        for k, v in env.items():
            if k.startswith("HTTP_") and k not in ("HTTP_CONTENT_TYPE", "HTTP_CONTENT_LENGTH"):
                want.append((k[5:].replace("_", "-").title(), v))
                src.append(k)
            elif k in ("CONTENT_TYPE", "CONTENT_LENGTH") and v:
                want.append((k.replace("_", "-").title(), v))
                src.append(k)
        bad = None
        if lst != want or len(e) != len(want):
            bad = f"iteration {lst!r}, environ gives {want!r}"
        else:
            for (k, v), sk in zip(lst, src):
                if sk == sk.upper() and "-" not in sk and (e.get(k) != v or k not in e or e[k] != v):
                    bad = f"get({k!r}) = {e.get(k)!r}, listed value {v!r}"
        if bad:
            chk.fail("environ-view", bad, {"kind": "eh", "env": dict(env), "ops": []})
    return " ".join(obs)


# ====================================================================== harness: protocol checks (not modelled)

class Box:
    """a small mutable value with __eq__ (module level, so that it pickles)"""
    def __init__(self, v):
        self.v = v

    def __eq__(self, other):
        return isinstance(other, Box) and self.v == other.v

    __hash__ = None

    def __repr__(self):
        return f"Box({self.v!r})"


def _mv_leaves(x, ds):
    if isinstance(x, ds.CombinedMultiDict):
        return [v for d in x.dicts for v in _mv_leaves(d, ds)]
    if isinstance(x, ds.MultiDict):
        return [v for _, vs in x.lists() for v in vs]
    if isinstance(x, dict):
        return list(dict.values(x))
    return list(x)


def _mv_snap(x, ds):
    if isinstance(x, ds.MultiDict):
        return repr([(k, list(vs)) for k, vs in x.lists()])
    if isinstance(x, dict):
        return repr(list(dict.items(x)))
    return repr(list(x))


def _mv_poke(v, tag):
    """mutate one value in place; False when the value is not mutable"""
    if isinstance(v, list):
        v.append(tag)
    elif isinstance(v, dict):
        v[tag] = tag
    elif isinstance(v, Box):
        v.v = (v.v, tag)
    else:
        return False
    return True


def mutable_value_checks(chk, ds, rng, n):
    """copy / deepcopy / pickle over containers whose VALUES are mutable (lists, dicts, a small object with __eq__; request.files
    is an ImmutableMultiDict of FileStorage objects).  What the code does at this commit, and what is required:
      deep routes  copy.deepcopy(x), copy.deepcopy of a structure holding x, x.deepcopy() where it exists, pickle round trip:
                   the same type, equal content, no value object shared; poking a value on either side leaves the other side as
                   it was; all routes agree.
      shallow routes  copy.copy(x), x.copy(): the values ARE shared (by design); the result is x itself for the immutable kinds
                   under copy.copy, else a separate container of the documented type, and growing it leaves x alone."""
    import copy
    import pickle
    from werkzeug.datastructures import structures as st
    OMD = getattr(st, "_OrderedMultiDict", None) or getattr(ds, "OrderedMultiDict", None)
    IOMD = getattr(st, "_ImmutableOrderedMultiDict", None) or getattr(ds, "ImmutableOrderedMultiDict", None)

    def value():
        k = rng.randint(0, 5)
        return [[1, 2], {"k": "v"}, Box(3), [Box("in"), "s"], {"k": [7]}, Box([1])][k]

    def pairs():
        return [(rng.choice(["a", "b", "a", "files"]), value()) for _ in range(rng.randint(1, 4))] + [("s", "plain")]

    # kind -> (factory, immutable, type of .copy(), type of copy.copy; None = the object itself)
    kinds = {
        "MultiDict": (lambda: ds.MultiDict(pairs()), False, ds.MultiDict, ds.MultiDict),
        "ImmutableMultiDict": (lambda: ds.ImmutableMultiDict(pairs()), True, ds.MultiDict, None),
        "CombinedMultiDict": (lambda: ds.CombinedMultiDict([ds.MultiDict(pairs()), ds.ImmutableMultiDict(pairs())]), True, ds.MultiDict, ds.MultiDict),
        "ImmutableDict": (lambda: ds.ImmutableDict(dict(pairs())), True, dict, None),
        "TypeConversionDict": (lambda: ds.TypeConversionDict(dict(pairs())), False, dict, ds.TypeConversionDict),
        "ImmutableTypeConversionDict": (lambda: ds.ImmutableTypeConversionDict(dict(pairs())), True, ds.TypeConversionDict, None),
        "ImmutableList": (lambda: ds.ImmutableList([v for _, v in pairs()]), True, list, ds.ImmutableList),
        "FileMultiDict": (lambda: ds.FileMultiDict(pairs()), False, ds.FileMultiDict, ds.FileMultiDict),
        "CallbackDict": (lambda: ds.CallbackDict(dict(pairs())), False, dict, ds.CallbackDict),
    }
    if OMD is not None:
        kinds["OrderedMultiDict"] = (lambda: OMD(pairs()), False, OMD, OMD)
    if OMD is not None and IOMD is not None:
        kinds["ImmutableOrderedMultiDict"] = (lambda: IOMD(pairs()), True, OMD, None)
    deep = [("copy.deepcopy(x)", copy.deepcopy), ("copy.deepcopy({'w': x})['w']", lambda x: copy.deepcopy({"w": x})["w"]),
            ("copy.deepcopy([x, x])[1]", lambda x: copy.deepcopy([x, x])[1]), ("x.deepcopy()", lambda x: x.deepcopy()),
            ("pickle round trip", lambda x: pickle.loads(pickle.dumps(x)))]
    for i in range(n):
        for kind, (make, immutable, t_copy, t_copycopy) in kinds.items():
            for how, route in deep:
                x = make()
                if how == "x.deepcopy()" and not hasattr(x, "deepcopy"):
                    continue
                case = {"kind": "mutable-values", "container": kind, "route": how, "content": _mv_snap(x, ds)}
                try:
                    before = _mv_snap(x, ds)
                    c = route(x)
                    if type(c) is not type(x) or _mv_snap(c, ds) != before:
                        chk.fail("copy-not-equal", f"{kind}: {how} gives {type(c).__name__} {_mv_snap(c, ds)}, the original is {before}", case)
                        continue
                    lx, lc = _mv_leaves(x, ds), _mv_leaves(c, ds)
                    shared = [repr(a) for a, b in zip(lx, lc) if a is b and _mv_poke(copy.deepcopy(a), "probe")]
                    if shared:
                        chk.fail("copy-value-independence", f"{kind}: {how} shares the mutable values {shared} with the original", case)
                        continue
                    for v in lc:
                        _mv_poke(v, "poked")
                    if _mv_snap(x, ds) != before:
                        chk.fail("copy-value-independence", f"{kind}: changing a value inside the result of {how} changed the original: "
                                 f"{before} -> {_mv_snap(x, ds)}", case)
                        continue
                    after_c = _mv_snap(c, ds)
                    for v in lx:
                        _mv_poke(v, "poked2")
                    if _mv_snap(c, ds) != after_c:
                        chk.fail("copy-value-independence", f"{kind}: changing a value inside the original changed the result of {how}", case)
                except Exception as e:  # noqa: BLE001
                    chk.fail("copy-not-equal", f"{kind}: {how} or reading its result raised {type(e).__name__}: {e}", case)
            for how, route, want in (("copy.copy(x)", copy.copy, t_copycopy), ("x.copy()", lambda x: x.copy(), t_copy)):
                x = make()
                case = {"kind": "mutable-values", "container": kind, "route": how, "content": _mv_snap(x, ds)}
                try:
                    before = _mv_snap(x, ds)
                    c = route(x)
                    if want is None:
                        if c is not x:
                            chk.fail("copy-shape", f"{kind}: {how} of an immutable container is no longer the container itself", case)
                        continue
                    if type(c) is not want or c is x or _mv_snap(c, ds) != before:
                        chk.fail("copy-shape", f"{kind}: {how} gives {type(c).__name__} {_mv_snap(c, ds)}, expected a separate {want.__name__} with the same content", case)
                        continue
                    lx, lc = _mv_leaves(x, ds), _mv_leaves(c, ds)
                    if sorted(map(id, lx)) != sorted(map(id, lc)):
                        chk.fail("copy-shape", f"{kind}: {how} no longer shares the value objects (a shallow copy copies the container only)", case)
                        continue
                    if immutable and type(c) is type(x):
                        continue
                    if isinstance(c, list):
                        c.append("grown")
                    elif isinstance(c, ds.MultiDict):
                        c.add("grown", "1")
                        c.add("s", "2")
                    else:
                        c["grown"] = "1"
                    if _mv_snap(x, ds) != before:
                        chk.fail("copy-independence", f"{kind}: growing the result of {how} changed the original: {before} -> {_mv_snap(x, ds)}", case)
                except Exception as e:  # noqa: BLE001
                    chk.fail("copy-shape", f"{kind}: {how} raised {type(e).__name__}: {e}", case)
        chk.case(("mutable-values", i), nontrivial=True)
    chk.count("copy / deepcopy / pickle with mutable values (oracle only)", n * len(kinds))


# keys that are equal under str.casefold() (or str.upper()) but different under str.lower(), and the other way round: the code
# compares header names with lower() everywhere (Kelvin sign K and k ARE equal under lower(); sharp s and ss, long s and s, final
# sigma and sigma, the fi ligature and fi are NOT)
UNI_KEYS = ["X-Mass", "X-Maß", "x-mass", "X-MASS", "set", "ſet", "SET", "σ", "ς", "Σ", "k", "\u212a", "K", "İ", "i̇", "i", "I", "ı", "ﬁ", "fi"]


def unicode_key_checks(chk, ds, rng, n):
    """Headers / HeaderSet / EnvironHeaders over names outside ASCII: the extracted model folds ASCII only (its claimed domain),
    so these run against the Python reference (ref_hd / ref_hs: str.lower()) and the read-consistency laws only"""
    saved, fresh = list(PROBE), FRESH[0]
    PROBE[:] = UNI_KEYS
    FRESH[0] = True
    try:
        for i in range(n):
            init = ("p", tuple((rng.choice(UNI_KEYS), rng.choice(["1", "2", "3"])) for _ in range(rng.randint(0, 5))))
            ops = [hd_random_op(rng, UNI_KEYS) for _ in range(rng.randint(1, 6))]
            try:
                run_hd(chk, ds, init, ops, True)
            except Exception as e:  # noqa: BLE001
                chk.fail("implementation-raised", f"{type(e).__name__}: {e} escaped from Headers", {"kind": "hd", "init": init, "ops": [list(o) for o in ops]})
            items = []
            for x in (rng.choice(UNI_KEYS) for _ in range(rng.randint(0, 4))):
                if x.lower() not in [y.lower() for y in items]:
                    items.append(x)
            hops = [o for o in (hs_random_op(rng, UNI_KEYS) for _ in range(rng.randint(1, 6))) if o[0] != "set"]
            try:
                run_hs(chk, ds, items, hops, True)
            except Exception as e:  # noqa: BLE001
                chk.fail("implementation-raised", f"{type(e).__name__}: {e} escaped from HeaderSet", {"kind": "hs", "init": items, "ops": [list(o) for o in hops]})
            chk.case(("unicode-keys", i, repr(init), repr(items)), nontrivial=True)
        # EnvironHeaders: get / in / [] go through key.upper(), getlist / get_all through k.lower()
        for i in range(max(1, n // 4)):
            env = {"HTTP_" + rng.choice(UNI_KEYS).upper().replace("-", "_"): str(j) for j in range(rng.randint(1, 4))}
            e = ds.EnvironHeaders(env)
            for k in UNI_KEYS:
                case = {"kind": "eh-unicode", "env": dict(env), "key": k}
                try:
                    row = e.getlist(k)
                    reads = (k in e, e.get(k), e.get_all(k))
                except Exception as ex:  # noqa: BLE001
                    chk.fail("implementation-raised", f"{type(ex).__name__}: {ex} escaped from EnvironHeaders reads", case)
                    continue
                if reads != (bool(row), row[0] if row else None, row):
                    folds_apart = not k.isascii() or not all(x.isascii() for x in env)
                    chk.fail("environ-headers-upper-vs-lower" if folds_apart else "environ-view",
                             f"EnvironHeaders({env!r}): {k!r} in e = {reads[0]}, get = {reads[1]!r}, getlist = {row!r}", case)
    finally:
        PROBE[:] = saved
        FRESH[0] = fresh
    chk.count("header names outside ASCII (reference model and laws, oracle only)", n)


class Iter3:
    """a custom iterable that is not a list, tuple or set"""
    def __iter__(self):
        return iter(("i1", "i2", "i3"))

    def __repr__(self):
        return "Iter3()"

    def __eq__(self, other):
        return isinstance(other, Iter3)

    __hash__ = None


def _value_kinds():
    """(label, factory) of mapping VALUES: only list / tuple / set are expanded into several values by iter_multi_items and by
    the constructors; every other value, iterable or not, is ONE value"""
    import collections
    return [("list", lambda: ["l1", "l2"]), ("tuple", lambda: ("t1", "t2")), ("set", lambda: {"s1"}), ("empty list", lambda: []),
            ("dict", lambda: {"x": 1, "y": 2}), ("frozenset", lambda: frozenset({"f"})), ("range", lambda: range(2)),
            ("deque", lambda: collections.deque(["q1", "q2"])), ("iterator", lambda: iter(["n1", "n2"])),
            ("generator", lambda: (c for c in "gh")), ("bytes", lambda: b"by"), ("bytearray", lambda: bytearray(b"ba")),
            ("custom iterable", Iter3), ("str", lambda: "plain"), ("int", lambda: 7), ("None", lambda: None)]


def mapping_value_kinds(chk, ds, R):
    """dict, frozenset, range, deque, iterator, generator, bytes, bytearray and a custom iterable as VALUES of a mapping handed to
    every entry point that takes one.  MultiDict side (values are arbitrary objects: oracle only): the value is stored as it is,
    identical object, an iterator not consumed.  Headers side (values are str()-ed): also compared with the model, which sees a
    scalar."""
    def expand(v):
        return list(v) if isinstance(v, MULTI) else [v]
    kinds = _value_kinds()
    md_entry = {
        "MultiDict(m)": lambda m: ds.MultiDict(m),
        "ImmutableMultiDict(m)": lambda m: ds.ImmutableMultiDict(m),
        "MultiDict().update(m)": lambda m: (lambda d: (d.update(m), d)[1])(ds.MultiDict()),
        "MultiDict() | m": lambda m: ds.MultiDict() | m,
        "MultiDict() |= m": lambda m: ds.MultiDict().__ior__(m),
        "MultiDict([('k','0')]).update(m)": lambda m: (lambda d: (d.update(m), d)[1])(ds.MultiDict([("k", "0")])),
        "CombinedMultiDict([MultiDict(m)])": lambda m: ds.CombinedMultiDict([ds.MultiDict(m)]),
        "MultiDict(iter_multi_items(m))": lambda m: ds.MultiDict(list(ds.iter_multi_items(m))),
        "TypeConversionDict / dict mapping subclass": lambda m: ds.MultiDict(ds.TypeConversionDict(m)),
    }
    for label, make in kinds:
        for name, fn in md_entry.items():
            v = make()
            case = {"kind": "mapping-values", "entry": name, "value": label}
            try:
                d = fn({"k": v, "z": "last"})
                got = d.getlist("k")
            except Exception as e:  # noqa: BLE001
                chk.fail("mapping-value-kinds", f"{name} with a {label} value raised {type(e).__name__}: {e}", case)
                continue
            base = ["0"] if name.startswith("MultiDict([('k','0')])") else []
            want = base + expand(make())
            same = len(got) == len(want) and all((a is v) if not isinstance(v, MULTI) and i == len(base) else
                                                 (repr(a) == repr(b) if label in ("iterator", "generator") else a == b)
                                                 for i, (a, b) in enumerate(zip(got, want)))
            if not same or d.getlist("z") != ["last"]:
                chk.fail("mapping-value-kinds", f"{name} with the {label} value {make()!r} under k holds {got!r}; list / tuple / set expand, "
                         f"every other value is one value: expected {want!r}", case)
            elif label in ("iterator", "generator") and len(list(v)) != 2:
                chk.fail("mapping-value-kinds", f"{name} consumed the {label} it was given as a value", case)
        # Headers: through the operation sequences (reference pair list + extracted model)
        if label in ("iterator", "generator", "None"):
            continue            # their str() form carries an address / is refused: not a reproducible model line
        for op in ("extend", "update", "ior"):
            R.hd(("p", (("k", "0"),)), [(op, ("d", {"k": make(), "z": "last"}))])
        R.hd(("d", {"k": make()}), [])
        h = ds.Headers([("k", "0")])
        try:
            rv = h | {"k": make()}
            want = [str(x) for x in expand(make())]
            if rv.getlist("k") != want:
                chk.fail("mapping-value-kinds", f"Headers | {{'k': {make()!r}}} holds {rv.getlist('k')!r}, expected {want!r}",
                         {"kind": "mapping-values", "entry": "Headers | m", "value": label})
        except Exception as e:  # noqa: BLE001
            chk.fail("mapping-value-kinds", f"Headers | m with a {label} value raised {type(e).__name__}: {e}", {"kind": "mapping-values", "entry": "Headers | m", "value": label})
    chk.count("mapping value kinds x entry points", len(kinds) * (len(md_entry) + 5))


def falsy_key_checks(chk, ds):
    """failing lookups with keys that are falsy ('' 0 False b'' () 0.0 frozenset()) next to an ordinary key, in the empty dict,
    next to another key, and in the state where the key holds an emptied list: the exception is BadRequestKeyError (a KeyError)
    and carries the key, args == (key,), exactly as dict's own KeyError does - the reference"""
    from werkzeug.exceptions import BadRequestKeyError
    keys = ["", 0, False, b"", (), 0.0, frozenset(), "k", 7]

    def outcome(fn):
        try:
            return ("returned", fn())
        except Exception as e:  # noqa: BLE001
            return (type(e), e.args)
    n = 0
    for k in keys:
        for cname in ("MultiDict", "FileMultiDict", "ImmutableMultiDict", "CombinedMultiDict"):
            cls = getattr(ds, cname)

            def state(kind):
                base = ds.MultiDict()
                if kind == "emptied":
                    base.setlist(k, [])
                elif kind == "other key":
                    base.add("other", "1")
                if cname == "CombinedMultiDict":
                    return ds.CombinedMultiDict([base])
                return base if cname == "MultiDict" else cls(base) if kind != "emptied" or cname == "ImmutableMultiDict" else _emptied(cls, k)
            probes = [("d[k]", lambda d: d[k], ("missing", "other key", "emptied"))]
            if cname in ("MultiDict", "FileMultiDict"):
                probes += [("d.pop(k)", lambda d: d.pop(k), ("missing", "other key", "emptied")),
                           ("d.popitem()", lambda d: d.popitem(), ("emptied",))]
            for label, op, kinds in probes:
                for kind in kinds:
                    if kind == "emptied" and cname in ("ImmutableMultiDict",):
                        continue        # its constructor drops an empty row
                    n += 1
                    got = outcome(lambda: op(state(kind)))
                    ref = outcome(lambda: {}[k])
                    if got[0] is not BadRequestKeyError or got[1] != ref[1] or type(got[1][0]) is not type(k):
                        chk.fail("keyerror-args", f"{cname} ({kind}) {label} with the key {k!r}: "
                                 + (f"raised {got[0].__name__} with args {got[1]!r}" if got[0] != "returned" else f"returned {got[1]!r}")
                                 + f"; a failing lookup raises BadRequestKeyError with args {ref[1]!r} (dict: {ref[0].__name__}{ref[1]!r})",
                                 {"kind": "falsy-key", "class": cname, "state": kind, "op": label, "key": repr(k)})
        # the non-raising companions
        d = _emptied(ds.MultiDict, k)
        if d.poplist(k) != [] or ds.MultiDict().poplist(k) != [] or _emptied(ds.MultiDict, k).popitemlist() != (k, []) \
                or ds.MultiDict().get(k) is not None or ds.MultiDict().getlist(k) != [] or _emptied(ds.MultiDict, k).pop(k, "dflt") != "dflt":
            chk.fail("keyerror-args", f"poplist / popitemlist / get / getlist / pop(k, default) with the key {k!r} do not return their defaults",
                     {"kind": "falsy-key", "op": "defaults", "key": repr(k)})
    for label, fn in (("Headers()['']", lambda: ds.Headers()[""]), ("Headers().pop('')", lambda: ds.Headers().pop("")),
                      ("Headers([('a','1')])['']", lambda: ds.Headers([("a", "1")])[""])):
        got = outcome(fn)
        if got[0] is not BadRequestKeyError or got[1] != ("",):
            chk.fail("keyerror-args", f"{label}: {got!r}, expected BadRequestKeyError with args ('',)", {"kind": "falsy-key", "op": label, "key": "''"})
    chk.count("failing lookups with falsy keys (oracle only)", n)


def _emptied(cls, k):
    d = cls()
    d.setlist(k, [])
    return d


def heap_shape_checks(chk, ds):
    """the four primitives of the heap model (C08/ProofsCopy.v) on the implementation, by object identity of the rows:
    add appends to the row in place, __setitem__ / setlist / setdefault bind a newly built row (never the caller's list),
    copy() / MultiDict(d) / deepcopy() bind new rows"""
    def rows(m):
        return {k: id(v) for k, v in dict.items(m)}
    d = ds.MultiDict([("a", "1"), ("b", "2"), ("a", "3")])
    before = rows(d)
    d.add("a", "4")
    d.update([("b", "5")])
    if rows(d) != before or dict.__getitem__(d, "a") != ["1", "3", "4"]:
        chk.fail("heap-shape", "add / update on an existing key does not append to the stored row in place", {"kind": "heap", "op": "add"})
    mine = ["x", "y"]
    d.setlist("a", mine)
    d["b"] = "z"
    r2 = rows(d)
    if dict.__getitem__(d, "a") is mine or r2["a"] == before["a"] or r2["b"] == before["b"]:
        chk.fail("heap-shape", "setlist / __setitem__ do not bind a newly built row", {"kind": "heap", "op": "setlist"})
    mine.append("leak")
    if d.getlist("a") != ["x", "y"]:
        chk.fail("copy-independence", "setlist(k, l) keeps the caller's list: a later l.append shows in the MultiDict", {"kind": "heap", "op": "setlist-alias"})
    dflt = ["p"]
    d.setlistdefault("c", dflt)
    dflt.append("leak")
    if d.getlist("c") != ["p"]:
        chk.fail("copy-independence", "setlistdefault(k, l) keeps the caller's list", {"kind": "heap", "op": "setlistdefault-alias"})
    import copy
    for name, c in (("copy()", d.copy()), ("MultiDict(d)", ds.MultiDict(d)), ("deepcopy()", d.deepcopy()), ("copy.copy", copy.copy(d)),
                    ("ImmutableMultiDict(d).copy()", ds.ImmutableMultiDict(d).copy()), ("MultiDict(dict of lists)", ds.MultiDict(dict(d.lists())))):
        if set(rows(c).values()) & set(rows(d).values()):
            chk.fail("copy-independence", f"{name} shares a row list with the original", {"kind": "heap", "op": name})
    src = {"k": ["1", "2"]}
    c = ds.MultiDict(src)
    c.add("k", "3")
    if src != {"k": ["1", "2"]}:
        chk.fail("copy-independence", "MultiDict(dict of lists) keeps the caller's lists: add on the MultiDict changes the dict", {"kind": "heap", "op": "init-alias"})
    h = ds.Headers([("A", "1")])
    hc = h.copy()
    if hc._list is h._list:
        chk.fail("copy-independence", "Headers.copy() shares the pair list", {"kind": "heap", "op": "Headers.copy"})
    chk.count("heap shape of the primitives (oracle only)")


def protocol_checks(chk, ds, rng, n):
    """copy independence, pickle, copy.deepcopy, __eq__/__hash__ consistency, get(type=...), None values,
    FileMultiDict: runtime protocol a functional model cannot exhibit; compared on the implementation only."""
    import copy
    import io
    import pickle
    for i in range(n):
        ops = [md_random_op(rng) for _ in range(rng.randint(0, 8))]
        d = ds.MultiDict(make_arg(rng.choice(MD_INITS[1:]), ds))
        for op in ops:
            try:
                md_apply(d, op, ds)
            except Exception:  # noqa: BLE001
                pass
        for k in [k for k, vs in _md_raw(d).items() if not vs]:      # empty rows: the known items() finding, flagged elsewhere
            del d[k]
        raw = _md_raw(d)
        case = {"kind": "protocol", "rows": raw}
        bad = None
        for name, c in (("copy()", d.copy()), ("copy.copy", copy.copy(d)), ("deepcopy", copy.deepcopy(d)), ("deepcopy()", d.deepcopy()),
                        ("pickle", pickle.loads(pickle.dumps(d))), ("MultiDict(d)", ds.MultiDict(d))):
            if type(c) is not ds.MultiDict or _md_raw(c) != raw or c != d:
                bad = f"{name} is not an equal MultiDict"
                break
            c.add("a", "new")
            c.setlistdefault("b").append("new2")
            for vs in dict.values(c):
                vs.append("zz")
            if _md_raw(d) != raw:
                bad = f"mutating the result of {name} changed the original"
                break
        im = ds.ImmutableMultiDict(d)
        im2 = ds.ImmutableMultiDict([(k, v) for k, vs in raw.items() for v in vs])
        if bad is None and all(raw.values()):
            if im != im2 or hash(im) != hash(im2) or copy.copy(im) is not im:
                bad = "equal ImmutableMultiDicts differ in ==/hash, or copy.copy is not the identity"
            elif pickle.loads(pickle.dumps(im)) != im or type(pickle.loads(pickle.dumps(im))) is not ds.ImmutableMultiDict:
                bad = "ImmutableMultiDict pickle round trip"
            elif type(im.copy()) is not ds.MultiDict or im.copy() != d:
                bad = "ImmutableMultiDict.copy() is not an equal mutable MultiDict"
        if bad is None:
            cmb = ds.CombinedMultiDict([d, ds.MultiDict({"zz": "1"})])
            c2 = pickle.loads(pickle.dumps(cmb))
            snap = cmb.copy()
            if type(c2) is not ds.CombinedMultiDict or dict(c2.lists()) != dict(cmb.lists()):
                bad = "CombinedMultiDict pickle round trip"
            else:
                before = _md_raw(snap)
                d.add("late", "x")
                if _md_raw(snap) != before or "late" not in cmb:
                    bad = "CombinedMultiDict.copy() is not a snapshot / the view does not follow the wrapped dict"
        if bad is None and len(raw) >= 2 and all(raw.values()):
            # equal immutable containers built in a different key insertion order: == and hash must agree
            rev = dict(reversed(list(raw.items())))
            a1 = ds.ImmutableMultiDict([(k, v) for k, vs in raw.items() for v in vs])
            a2 = ds.ImmutableMultiDict([(k, v) for k, vs in rev.items() for v in vs])
            firsts, rfirsts = {k: vs[0] for k, vs in raw.items()}, {k: vs[0] for k, vs in rev.items()}
            for x, y in ((a1, a2), (ds.ImmutableDict(firsts), ds.ImmutableDict(rfirsts)),
                         (ds.ImmutableTypeConversionDict(firsts), ds.ImmutableTypeConversionDict(rfirsts))):
                if x != y:
                    bad = f"{type(x).__name__}: same items in another key order compare unequal"
                elif hash(x) != hash(y) or y not in {x}:
                    bad = f"{type(x).__name__}: {x!r} == {y!r} but their hashes differ"
        if bad:
            chk.fail("protocol-multidict", bad, case)
        # typed get / None default
        t = ds.MultiDict([("n", "42"), ("n", "x"), ("s", "abc")])
        if (t.get("n", type=int), t.get("s", type=int), t.get("s", 7, type=int), t.getlist("n", type=int), t.get("zz", type=int)) != (42, None, 7, [42], None):
            chk.fail("protocol-multidict", "get/getlist with type= conversion", {"kind": "protocol"})
        t2 = ds.MultiDict()
        if t2.setdefault("k") is not None or _md_raw(t2) != {"k": [None]}:
            chk.fail("protocol-multidict", "setdefault(k) without default", {"kind": "protocol"})
        # Headers
        hops = [hd_random_op(rng) for _ in range(rng.randint(0, 8))]
        h = ds.Headers(make_arg(rng.choice(HD_INITS[1:]), ds))
        for op in hops:
            try:
                hd_apply(h, op, ds)
            except Exception:  # noqa: BLE001
                pass
        lst = list(h)
        bad = None
        for name, c in (("copy()", h.copy()), ("copy.copy", copy.copy(h)), ("deepcopy", copy.deepcopy(h)),
                        ("pickle", pickle.loads(pickle.dumps(h))), ("Headers(h)", ds.Headers(h))):
            if type(c) is not ds.Headers or list(c) != lst or c != h:
                bad = f"Headers {name} is not equal"
                break
            c.add("a", "new")
            c.set("b", "n2")
            if list(h) != lst:
                bad = f"mutating the result of Headers {name} changed the original"
                break
        if bad is None:
            try:
                hash(h)
                bad = "Headers is hashable"
            except TypeError:
                pass
            hl = ds.Headers([(k.upper(), v) for k, v in reversed(lst)])
            if hl != h or (lst and ds.Headers(lst[1:] + [("zz-other", "1")]) == h):
                bad = "__eq__ is not equality of case-folded pair sets"
            if ds.Headers([("n", "42")]).get("n", type=int) != 42 or ds.Headers([("n", "x")]).get("n", 5, type=int) != 5:
                bad = "Headers.get(type=int)"
        if bad:
            chk.fail("protocol-headers", bad, {"kind": "protocol", "pairs": lst})
        # HeaderSet
        hs = ds.HeaderSet(["a", "B"])
        for op in [hs_random_op(rng) for _ in range(rng.randint(0, 6))]:
            try:
                hs_apply(hs, op)
            except Exception:  # noqa: BLE001
                pass
        for name, c in (("pickle", pickle.loads(pickle.dumps(hs))), ("deepcopy", copy.deepcopy(hs))):
            if c._headers != hs._headers or c._set != hs._set:
                chk.fail("protocol-headerset", f"HeaderSet {name} round trip", {"kind": "protocol", "items": hs._headers})
            c.add("zz-new")
            if "zz-new" in hs:
                chk.fail("protocol-headerset", f"HeaderSet {name} shares state", {"kind": "protocol", "items": hs._headers})
        chk.case(("protocol", i), nontrivial=True)
    # FileMultiDict
    fm = ds.FileMultiDict()
    fm.add_file("f", io.BytesIO(b"x"), "a.txt")
    fm.add_file("f", io.BytesIO(b"y"), "b.txt")
    if [x.filename for x in fm.getlist("f")] != ["a.txt", "b.txt"] or fm["f"].filename != "a.txt":
        chk.fail("protocol-multidict", "FileMultiDict.add_file", {"kind": "protocol"})
    chk.count("protocol(copy/pickle/deepcopy/hash; harness only)", n)


def request_headers_view(chk, rng, n):
    """the environ-backed view as the request wrapper hands it out: Request.headers must follow every later change of
    request.environ (keys added, rewritten, deleted)"""
    from werkzeug.test import create_environ
    from werkzeug.wrappers import Request

    def want(env):
        out = []
        for k, v in env.items():
            if k.startswith("HTTP_") and k not in ("HTTP_CONTENT_TYPE", "HTTP_CONTENT_LENGTH"):
                out.append((k[5:].replace("_", "-").title(), v))
            elif k in ("CONTENT_TYPE", "CONTENT_LENGTH") and v:
                out.append((k.replace("_", "-").title(), v))
        return out
    keys = ["HTTP_ACCEPT", "HTTP_X_LATE", "HTTP_X_FORWARDED_FOR", "CONTENT_TYPE", "CONTENT_LENGTH", "HTTP_HOST", "HTTP_CONTENT_TYPE", "HTTP_COOKIE"]
    for i in range(n):
        env = create_environ("/p", "http://example.org/", headers={"Accept": "text/html", "X-Forwarded-For": "10.0.0.1"},
                             method=rng.choice(["GET", "POST"]))
        req = Request(env, shallow=rng.random() < 0.5)
        hist = []
        for step in range(rng.randint(1, 6)):
            if step:
                k = rng.choice(keys)
                if k in req.environ and rng.random() < 0.4:
                    del req.environ[k]
                    hist.append(["del", k])
                else:
                    v = rng.choice(["1", "text/plain", "", "a=b", "10.0.0.2"])
                    req.environ[k] = v
                    hist.append(["set", k, v])
            w = want(req.environ)
            got = list(req.headers)
            bad = None
            if got != w or len(req.headers) != len(w):
                bad = f"request.headers lists {got!r}, request.environ gives {w!r}"
            else:
                for name in ("Accept", "X-Late", "X-Forwarded-For", "Content-Type", "Content-Length", "Host", "Cookie"):
                    k = name.upper().replace("-", "_")
                    ek = k if k in ("CONTENT_TYPE", "CONTENT_LENGTH") else "HTTP_" + k
                    have = req.headers.get(name)
                    if have != req.environ.get(ek) or (name in req.headers) != (ek in req.environ):
                        bad = f"request.headers.get({name!r}) = {have!r}, request.environ[{ek!r}] = {req.environ.get(ek)!r}"
                        break
            if bad:
                chk.fail("environ-view", f"after {hist!r}: {bad}", {"kind": "request-headers", "history": hist})
                break
        chk.case(("request-headers", i, repr(hist)), nontrivial=True)
    chk.count("Request.headers after environ edits", n)


def eq_checks(chk, ds, rng, R, n):
    """__eq__ / __hash__ / deepcopy / pickle as logic: compared with the model (md_eqb, hd_eqb, hs_eqb, md_deepcopy,
    imd_reduce) and judged against the abstract values (equal iff same rows / same folded pair set / same folded item
    set; equal immutable values hash equal; rebuilding gives an equal value)"""
    import copy
    import pickle
    keys, vals = ["a", "A", "b", "k"], ["1", "2"]

    def rows():
        d = {}
        for _ in range(rng.randint(0, 3)):
            d[rng.choice(keys)] = [rng.choice(vals) for _ in range(rng.randint(0 if rng.random() < 0.2 else 1, 2))]
        return d

    def build(r):
        m = ds.MultiDict()
        for k, vs in r.items():
            m.setlist(k, vs)
        return m
    for i in range(n):
        r1 = rows()
        r2 = rng.choice([dict(reversed(list(r1.items()))), rows(), dict(r1), {k: list(reversed(v)) for k, v in r1.items()}])
        m1, m2 = build(r1), build(r2)
        case = {"kind": "eq", "rows": [r1, r2]}
        eq = m1 == m2
        R._push(f"mdeq {klists(r1)} {klists(r2)}", O(eq), 1)
        if eq != (r1 == r2) or eq != (m2 == m1) or (m1 != m2) == eq:
            chk.fail("eq-hash-consistency", f"MultiDict {r1!r} == {r2!r} is {eq}, equality of the rows is {r1 == r2}", case)
        i1, i2 = ds.ImmutableMultiDict(m1), ds.ImmutableMultiDict(m2)
        if (i1 == i2) != eq or (eq and all(r1.values()) and hash(i1) != hash(i2)):
            chk.fail("eq-hash-consistency", f"ImmutableMultiDict {r1!r} / {r2!r}: == is {i1 == i2}, hashes {'equal' if hash(i1) == hash(i2) else 'differ'}", case)
        # rebuilding: deepcopy (through to_dict and the constructor) and the immutable variant's pickle (through its pairs)
        dc = copy.deepcopy(m1)
        pi = pickle.loads(pickle.dumps(i1))
        R._push(f"mdrebuild {klists(r1)}", OM(dc.lists()) + "|" + OM(pi.lists()), 1)
        live = {k: v for k, v in r1.items() if v}
        if _md_raw(dc) != live or _md_raw(pi) != live or type(pi) is not ds.ImmutableMultiDict or (all(r1.values()) and (dc != m1 or pi != i1)):
            chk.fail("eq-hash-consistency" if all(r1.values()) else "multidict-empty-list-items",
                     f"deepcopy / pickle of {r1!r} give {_md_raw(dc)!r} / {_md_raw(pi)!r}", case)
        c1, c2 = ds.CombinedMultiDict([m1]), ds.CombinedMultiDict([m2])
        if (c1 == c2) != (dict(c1.lists()) == dict(c2.lists())):
            chk.fail("combined-eq-ignores-content", f"CombinedMultiDict([{r1!r}]) == CombinedMultiDict([{r2!r}]) is {c1 == c2}", case)
        # Headers
        p1 = [(rng.choice(keys), rng.choice(vals)) for _ in range(rng.randint(0, 3))]
        p2 = rng.choice([[(k.swapcase(), v) for k, v in reversed(p1)], p1 + p1[:1], [(k, v) for k, v in p1[1:]],
                         [(rng.choice(keys), rng.choice(vals)) for _ in range(rng.randint(0, 3))]])
        h1, h2 = ds.Headers(p1), ds.Headers(p2)
        eqh = h1 == h2
        R._push(f"hdeq {kvs(p1, S)} {kvs(p2, S)}", O(eqh), 1)
        want = {(k.lower(), v) for k, v in p1} == {(k.lower(), v) for k, v in p2}
        if eqh != want or eqh != (h2 == h1):
            chk.fail("eq-hash-consistency", f"Headers {p1!r} == {p2!r} is {eqh}, equality of the folded pair sets is {want}", {"kind": "eq", "pairs": [p1, p2]})
        # HeaderSet (collections.abc.Set.__eq__)
        l1 = rng.sample(["a", "B", "c", "Dd"], rng.randint(0, 3))
        l2 = rng.choice([[x.swapcase() for x in reversed(l1)], l1[1:], l1 + ["zz"], rng.sample(["A", "b", "C", "x"], rng.randint(0, 3))])
        s1, s2 = ds.HeaderSet(l1), ds.HeaderSet(l2)
        eqs = s1 == s2
        R._push(f"hseq {L(l1)} {L(l2)}", O(eqs), 1)
        if eqs != ({x.lower() for x in l1} == {x.lower() for x in l2}) or eqs != (s2 == s1):
            chk.fail("eq-hash-consistency", f"HeaderSet {l1!r} == {l2!r} is {eqs}", {"kind": "eq", "items": [l1, l2]})
    for cls in (ds.Headers, ds.HeaderSet, ds.MultiDict):
        try:
            hash(cls())
            chk.fail("eq-hash-consistency", f"{cls.__name__} is mutable but hashable", {"kind": "eq", "class": cls.__name__})
        except TypeError:
            pass
    chk.count("eq / hash / deepcopy / pickle", n)


def mapping_entry_points(chk, ds, R):
    """every constructor-input shape (pairs, dict of scalars / lists / tuples / sets, another container) through every
    entry point that accepts a mapping: the constructor and update / |= are operations of the sequences above; here
    `|` on MultiDict / ImmutableMultiDict / Headers (modelled: md_or / hd_or) and the keyword forms of Headers.extend /
    update (oracle only)."""
    for init in MD_INITS[1:]:
        for a in MD_ARGS + [MD_INITS[3]]:
            for cls, kind in ((ds.MultiDict, "md"), (ds.ImmutableMultiDict, "imd")):
                d = cls(make_arg(init, ds))
                before = _md_raw(d)
                case = {"kind": "or", "class": cls.__name__, "init": init, "arg": a}
                try:
                    rv = d | make_arg(a, ds)
                    out = OM(rv.lists())
                except Exception as e:  # noqa: BLE001
                    rv, out = None, exn_name(e)
                exp, _ = ref_md(before, ("update", a)) if a[0] != "p" else (None, None)
                if a[0] == "p":
                    if out != "ETypeError":
                        chk.fail("multidict-model", f"{cls.__name__} | <list of pairs> gave {out}, expected TypeError", case)
                elif rv is None or type(rv) is not ds.MultiDict or _md_raw(rv) != exp or list(_md_raw(rv)) != list(exp) or _md_raw(d) != before:
                    chk.fail("multidict-model", f"{cls.__name__}({before!r}) | {a[1]!r} gave {out}, the multimap gives {exp!r} "
                             f"(left operand afterwards {_md_raw(d)!r})", case)
                if kind == "md":
                    R._push(f"mdor {marg_tok(init)} {marg_tok(a)}", out, 1)
                    chk.count("MultiDict |")
    for init in HD_INITS[1:]:
        for a in HD_ARGS:
            h = ds.Headers(make_arg(init, ds))
            before = list(h)
            case = {"kind": "or", "class": "Headers", "init": init, "arg": a}
            try:
                rv = h | make_arg(a, ds)
                out = OQ(list(rv))
            except Exception as e:  # noqa: BLE001
                rv, out = None, exn_name(e)
            if a[0] in ("p", "h"):
                if out != "ETypeError":
                    chk.fail("headers-model", f"Headers | <not a mapping> gave {out}, expected TypeError", case)
            else:
                exp, er = ref_hd(before, ("update", a))
                if isinstance(er, Raised):
                    if out != "E" + er.cls.__name__:
                        chk.fail("headers-model", f"Headers | {a[1]!r} gave {out}, expected {er!r}", case)
                elif rv is None or list(rv) != exp or list(h) != before:
                    chk.fail("headers-model", f"Headers({before!r}) | {a[1]!r} gave {out}, the pair list gives {exp!r}", case)
            R._push(f"hdor {harg_tok(init)} {harg_tok(a)}", out, 1)
            chk.count("Headers |")
    # keyword forms
    for v, flat in ((("1", "2"), ["1", "2"]), (["1", 2], ["1", "2"]), ({"3"}, ["3"]), ("x", ["x"]), ((), [])):
        h = ds.Headers([("a", "0")])
        h.extend(a=v)
        if list(h) != [("a", "0")] + [("a", x) for x in flat]:
            chk.fail("headers-model", f"Headers.extend(a={v!r}) gave {list(h)!r}", {"kind": "kwargs", "value": repr(v)})
        h = ds.Headers([("a", "0"), ("b", "1")])
        h.update(a=v)
        want = ([("a", flat[0])] if flat else []) + [("b", "1")] + [("a", x) for x in flat[1:]]
        if list(h) != want:
            chk.fail("headers-model", f"Headers.update(a={v!r}) gave {list(h)!r}, expected {want!r}", {"kind": "kwargs", "value": repr(v)})
        m = ds.MultiDict([("a", "0")])
        m.update({"a": v})
        m2 = ds.MultiDict({"a": v})
        vals = list(v) if isinstance(v, MULTI) else [v]
        if m.getlist("a") != ["0"] + vals or m2.getlist("a") != vals:
            chk.fail("multidict-model", f"update / constructor with {{'a': {v!r}}} disagree with the multimap: {m.getlist('a')!r} / {m2.getlist('a')!r}",
                     {"kind": "kwargs", "value": repr(v)})
        chk.case(("kwargs", repr(v)), nontrivial=True)


# ====================================================================== harness: the run

def _line(kind, init_tok, toks, keys=PROBE, idxs=IDXS):
    head = [kind, L(keys)]
    if idxs is not None:
        head.append(ZL(idxs))
    return " ".join(head + [init_tok] + toks)


def load_corpus():
    import json
    p = os.path.join(os.path.dirname(COQ), "corpus", PID, "cases.json")
    with open(p, encoding="utf-8") as f:
        return json.load(f)


def _tup(x):
    if isinstance(x, str) and x.startswith("Lazy(") and x.endswith(")"):
        return Lazy(ast.literal_eval(x[5:-1]))
    return tuple(_tup(y) for y in x) if isinstance(x, list) else x


def _arg_from_json(a):
    if a is None:
        return None
    kind, val = a
    if kind in ("p", "h"):
        return (kind, tuple((k, _tup(v)) for k, v in val))
    return (kind, {k: _tup(v) for k, v in dict(val).items()})


def _ops_from_json(kind, ops):
    out = []
    for o in ops:
        o = list(o)
        if kind in ("hd", "eh") and o[0] in ("extend", "update", "ior"):
            o[1] = _arg_from_json(o[1])
        elif kind in ("md", "imd") and o[0] in ("update", "ior"):
            o[1] = _arg_from_json(o[1])
        elif kind == "cmd":
            if o[0] == "o":
                o[1] = _ops_from_json("md", [o[1]])[0]
            else:
                o[2] = _ops_from_json("md", [o[2]])[0]
            out.append(tuple(o))
            continue
        out.append(tuple(_tup(x) if isinstance(x, list) else x for x in o))
    return out


def cop_tok(op) -> str:
    return "o" + md_tok(op[1]) if op[0] == "o" else f"i{op[1]}." + md_tok(op[2])


class Runner:
    def __init__(self, chk, ds):
        self.chk, self.ds = chk, ds
        self.lines: list[str] = []
        self.impl: list[str] = []

    def _guard(self, fn, *a, case=None):
        """an exception escaping a runner means a public read or the harness protocol failed on the implementation:
        report it as a failing input instead of dying"""
        try:
            return with_timeout(fn, 20, *a)
        except Exception as e:  # noqa: BLE001
            self.chk.fail("implementation-raised", f"{type(e).__name__}: {e} escaped while operating / observing", case)
            return "RAISED:" + type(e).__name__

    def _push(self, line, out, nops, sample=None):
        self.lines.append(line)
        self.impl.append(out)
        self.chk.case(line, nontrivial=nops > 0, sample=sample)

    def hs(self, init, ops, oracle=True):
        out = self._guard(run_hs, self.chk, self.ds, init, ops, oracle, case={"kind": "hs", "init": list(init), "ops": [list(o) for o in ops]})
        self._push(_line("hs", L(init), [hs_tok(o) for o in ops]), out, len(ops),
                   {"kind": "HeaderSet", "init": list(init), "ops": [list(o) for o in ops][:6]} if len(ops) == 3 else None)
        self.chk.count(f"HeaderSet:len{min(len(ops), 5)}{'+' if len(ops) > 5 else ''}")

    def hd(self, init, ops, oracle=True):
        out = self._guard(run_hd, self.chk, self.ds, init, ops, oracle, case={"kind": "hd", "init": init, "ops": [list(o) for o in ops]})
        self._push(_line("hd", "n" if init is None else harg_tok(init), [hd_tok(o) for o in ops]), out, len(ops),
                   {"kind": "Headers", "init": repr(init), "ops": [repr(o) for o in ops][:6]} if len(ops) == 2 else None)
        self.chk.count(f"Headers:len{min(len(ops), 5)}{'+' if len(ops) > 5 else ''}")

    def md(self, init, ops, oracle=True, immutable=False):
        cls = self.ds.ImmutableMultiDict if immutable else self.ds.MultiDict
        out = self._guard(run_md, self.chk, self.ds, init, ops, oracle, cls, case={"kind": "imd" if immutable else "md", "init": init, "ops": [list(o) for o in ops]})
        self._push(_line("imd" if immutable else "md", "n" if init is None else marg_tok(init), [md_tok(o) for o in ops], idxs=None),
                   out, len(ops), {"kind": cls.__name__, "init": repr(init), "ops": [repr(o) for o in ops][:6]} if len(ops) == 2 else None)
        self.chk.count(f"{cls.__name__}:len{min(len(ops), 5)}{'+' if len(ops) > 5 else ''}")

    def cmd(self, inits, ops, oracle=True):
        out = self._guard(run_cmd, self.chk, self.ds, inits, ops, oracle, case={"kind": "cmd", "inits": inits, "ops": [list(o) for o in ops]})
        line = " ".join(["cmd", L(PROBE), str(len(inits))] + [marg_tok(i) for i in inits] + [cop_tok(o) for o in ops])
        self._push(line, out, len(ops) + 1)
        self.chk.count("CombinedMultiDict")

    def eh(self, env, ops, oracle=True):
        out = self._guard(run_eh, self.chk, self.ds, env, ops, oracle, case={"kind": "eh", "env": dict(env), "ops": [list(o) for o in ops]})
        line = " ".join(["eh", L(ENV_PROBE), kvs(env.items(), S)] + [hd_tok(o) for o in ops])
        self._push(line, out, 1)
        self.chk.count("EnvironHeaders")


def run_case(R: Runner, c: dict, oracle=True):
    k = c["kind"]
    if k == "hs":
        R.hs(c["init"], _ops_from_json(k, c["ops"]), oracle)
    elif k == "hd":
        R.hd(_arg_from_json(c["init"]), _ops_from_json(k, c["ops"]), oracle)
    elif k in ("md", "imd"):
        R.md(_arg_from_json(c["init"]), _ops_from_json(k, c["ops"]), oracle, immutable=(k == "imd"))
    elif k == "cmd":
        R.cmd([_arg_from_json(i) for i in c["inits"]], _ops_from_json(k, c["ops"]), oracle)
    elif k == "eh":
        R.eh(dict(c["env"]), _ops_from_json(k, c["ops"]), oracle)


def run(chk: Check) -> None:
    import werkzeug.datastructures as ds
    rng = chk.rng
    quick = chk.tier == "quick"
    R = Runner(chk, ds)

    # ---- corpus first (replays of known / fixed findings and minimised past failures)
    for c in load_corpus():
        run_case(R, c)

    # ---- HeaderSet
    full, red = hs_alphabet(True), hs_alphabet(False)
    for init in HS_INITS:
        for n in (1, 2):
            for ops in seqs(full, n):
                R.hs(init, ops)
    for init in ([], ["A", "b"]):
        for ops in seqs(red if quick else full, 3):
            R.hs(init, ops)
    if not quick:
        for ops in seqs(red, 4):
            R.hs(["A", "b"], ops)
    FRESH[0] = True
    for _ in range(1500 if quick else 30000):
        R.hs(rng.choice(HS_INITS[:-2] + [["Accept", "Cookie"]]), [hs_random_op(rng) for _ in range(rng.randint(4, 30))])

    FRESH[0] = False
    # ---- Headers
    full, red = hd_alphabet(True), hd_alphabet(False)
    for init in HD_INITS:
        for ops in seqs(full, 1):
            R.hd(init, ops)
    for init in (HD_INITS[:2] if quick else HD_INITS):
        for ops in seqs(full, 2):
            R.hd(init, ops)
    for init in (HD_INITS[1:2] if quick else HD_INITS[:3]):
        for ops in seqs(red, 3):
            R.hd(init, ops)
    if not quick:
        for ops in seqs(red, 4):
            R.hd(HD_INITS[1], ops)
    for a in HD_ARGS + [("p", (("a", BAD),)), ("d", {"a": ["1", "x\r"]})]:     # constructor input incl. refused values
        R.hd(a, [])
    FRESH[0] = True
    for _ in range(1500 if quick else 30000):
        R.hd(rng.choice(HD_INITS), [hd_random_op(rng) for _ in range(rng.randint(4, 30))])

    FRESH[0] = False
    # ---- MultiDict / ImmutableMultiDict
    full, red = md_alphabet(True), md_alphabet(False)
    for init in MD_INITS:
        for n in (1, 2):
            for ops in seqs(full, n):
                R.md(init, ops)
        for ops in seqs(full, 1):
            R.md(init, ops, immutable=True)
    for ops in seqs(red if quick else full, 3):
        R.md(MD_INITS[1], ops)
    if not quick:
        for init in MD_INITS[3:5]:
            for ops in seqs(red, 3):
                R.md(init, ops)
    FRESH[0] = True
    for _ in range(1500 if quick else 30000):
        R.md(rng.choice(MD_INITS), [md_random_op(rng) for _ in range(rng.randint(4, 30))])
    for _ in range(300 if quick else 5000):
        R.md(rng.choice(MD_INITS), [md_random_op(rng) for _ in range(rng.randint(1, 6))], immutable=True)

    # ---- CombinedMultiDict: mutations of the wrapped dicts seen through the view; blocked mutators on the view
    inner = md_alphabet(False)
    for inits in ([MD_INITS[1], MD_INITS[2]], [MD_INITS[4], MD_INITS[3], MD_INITS[1]], [MD_INITS[5], MD_INITS[1]], []):
        R.cmd(inits, [])
        for o in md_alphabet(True):
            R.cmd(inits, [("o", o)])
        for j in range(len(inits)):
            for o in inner:
                R.cmd(inits, [("i", j, o)])
    for _ in range(600 if quick else 12000):
        inits = [rng.choice(MD_INITS[1:]) for _ in range(rng.randint(1, 3))]
        ops = []
        for _ in range(rng.randint(1, 10)):
            ops.append(("o", md_random_op(rng)) if rng.random() < 0.2 else ("i", rng.randrange(len(inits)), md_random_op(rng)))
        R.cmd(inits, ops)

    # ---- EnvironHeaders: the view after every edit of the environ, and blocked mutators
    hops = [o for o in hd_alphabet(True) if o[0] not in ("extend", "update", "ior") or o[1][0] != "m"]
    for _ in range(400 if quick else 8000):
        env = {}
        for _ in range(rng.randint(0, 6)):
            env[rng.choice(ENV_KEYS)] = rng.choice(["1", "", "text/plain", "gzip, br"])
        R.eh(env, [rng.choice(hops) for _ in range(rng.randint(0, 3))])
        for _ in range(3):          # edit the environ, look again
            k = rng.choice(ENV_KEYS)
            if k in env and rng.random() < 0.5:
                del env[k]
            else:
                env[k] = rng.choice(["2", "", "x"])
            R.eh(env, [])

    for init in MD_CTOR_EXTRA:          # constructor inputs with empty list / tuple / set values
        R.md(init, [])
        R.md(init, [], immutable=True)
        for o in md_alphabet(False):
            R.md(init, [o])
        c = ds.MultiDict(make_arg(init, ds))
        u = ds.MultiDict()
        u.update(make_arg(init, ds))
        if _md_raw(c) != _md_raw(u) or (ds.ImmutableMultiDict(make_arg(init, ds)) == ds.ImmutableMultiDict()) != (not _flat(init)):
            chk.fail("multidict-model", f"constructor and update() disagree on {init[1]!r}: {_md_raw(c)!r} vs {_md_raw(u)!r}",
                     {"kind": "md", "init": init, "ops": []})
    request_headers_view(chk, rng, 60 if quick else 1500)
    mapping_value_kinds(chk, ds, R)
    falsy_key_checks(chk, ds)
    unicode_key_checks(chk, ds, rng, 400 if quick else 8000)
    heap_shape_checks(chk, ds)
    mutable_value_checks(chk, ds, rng, 40 if quick else 800)
    protocol_checks(chk, ds, rng, 150 if quick else 3000)
    mapping_entry_points(chk, ds, R)
    eq_checks(chk, ds, rng, R, 1500 if quick else 30000)

    # ---- model side
    exe = chk.build_modelrun(PID)
    if exe:
        res = chk.run_model(exe, R.lines)
        if res is not None:
            mism = 0
            for ln, a, b in zip(R.lines, R.impl, res):
                if a != b:
                    mism += 1
                    if mism <= 5:
                        sa, sb = a.split(" "), b.split(" ")
                        step = next((i for i, (x, y) in enumerate(zip(sa, sb)) if x != y), min(len(sa), len(sb)))
                        chk.broken("correspondence", "C08 model vs werkzeug.datastructures",
                                   f"case {ln!r}: first difference at step {step}: impl {sa[step] if step < len(sa) else None!r} "
                                   f"model {sb[step] if step < len(sb) else None!r}", case={"line": ln, "impl": a, "model": b})
            chk.count("model:compared", len(R.lines))
            chk.count("model:mismatches", mism)


def replay(rep) -> int:
    import json
    import werkzeug.datastructures as ds
    chk = Check(PID, "quick", 0)
    R = Runner(chk, ds)
    inp = rep.get("input") or {}
    if isinstance(inp, dict) and "kind" in inp and inp["kind"] != "protocol":
        run_case(R, inp)
        print("case:", json.dumps(inp))
        print("implementation observations per step:")
        for i, s in enumerate(R.impl[0].split(" ")):
            print(f"  step {i}: {s}")
        for f in chk.failures:
            print(f"PROPERTY FAILS key={f['key']}: {f['what']}")
        return 1 if chk.failures else 0
    print(json.dumps(rep, indent=1))
    return 0


def main(chk: Check) -> None:
    try:
        gen()
    except px.Unsupported as e:
        chk.broken("translator", "C08/Gen.v", str(e))
    chk.forbidden_scan()
    if chk.coq_make(["C08/Proofs.vo", "C08/ProofsMD.vo", "C08/ProofsMM.vo", "C08/ProofsEq.vo", "C08/ProofsCopy.vo", "C08/Extract.vo"]):
        chk.audit_props("C08/Props.v")
    else:
        chk.cov["obligations"] += 1
    chk.trusted += [
        "translator tools/c08.py + tools/pyextract.py: case-folded comparison expressions of HeaderSet / Headers / EnvironHeaders, "
        "the mutator-blocking tables of the immutable mixins, _token_chars and the newline class are regenerated; the statement "
        "shapes around them are pinned and any other shape stops the translator",
        "extraction ExtrOcamlBasic (no Extract Constant) + tools/conv.ml + coq/C08/driver.ml, OCaml 4.13.1",
        "Python dict modelled as an insertion-ordered association list, Python set as a duplicate-free sorted list, list indexing / "
        "slicing (step None) as in CPython; str.lower/upper/title on ASCII only",
        "abstract reference models in tools/c08.py (ref_hs, ref_hd, ref_md) are the harness's transcription of the documented models",
        "harness only (not proved): copy independence, pickle, copy.deepcopy, __eq__/__hash__ consistency, get(type=), None values, FileMultiDict",
    ]
    try:
        run(chk)
    except Exception:  # noqa: BLE001
        import traceback
        chk.broken("harness-exception", "run", "an exception escaped the harness (the implementation raised where the harness does "
                   "not expect it):\n" + traceback.format_exc())
    chk.finish(rule="HeaderSet / Headers / MultiDict: every operation sequence of length 1-2 over the full operation alphabet "
                    "(keys a, A, b[, B]; values 1, 2 and one CR/LF value for Headers) from every constructor input, length 3 (quick: reduced "
                    "alphabet, two constructor inputs; thorough: full alphabet / length 4 reduced), random sequences of length 4-30; "
                    "ImmutableMultiDict, CombinedMultiDict (mutations of the wrapped dicts seen through the view), EnvironHeaders (view after "
                    "environ edits). After every step: the operation's result or exception class and every public read. A case is "
                    "non-trivial if it has at least one operation; distinct by hash of the case line.")
