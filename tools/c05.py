"""C05  Responses are well-formed WSGI output for every body, status and method."""
from __future__ import annotations

import ast
import os

from . import c08
from . import pyextract as px
from .vlib import COQ, Check, cps, hexs, with_timeout

PID = "C05"
CLAIM = dict(
    text="Coq theorems over executable models of the Headers mutators (shared with C08), _str_header_value, _clean_status, "
         "Response.get_wsgi_headers, get_app_iter, close and wsgi.ClosingIterator: header hygiene as an invariant over every "
         "sequence of mutators (a value containing CR or LF is refused with ValueError; the atomic mutators leave the state "
         "unchanged, the multi-value ones keep the values stored before the refused one; no stored value ever contains CR or LF), "
         "the Content-Length that werkzeug computes equals the number of body bytes produced, no body bytes for HEAD / 1xx / 204 / "
         "304 and no Content-Length for 1xx / 204, the status line for int / HTTPStatus / 'code reason' input, and "
         "the Location handed to the server is ASCII for every iri_to_uri / urljoin meeting their contracts (autocorrect on or "
         "off), and the close chain through ClosingIterator: every call_on_close callback exactly once and in registration "
         "order, the wrapped iterable closed once, with or without make_sequence, for every response that is not in direct "
         "passthrough (refuted with a witness for direct passthrough: a known finding), with the exact event trace of serving in "
         "both modes; the body accessors: make_sequence / set_data / freeze / get_data / calculate_content_length agree with the "
         "bytes served and with the Content-Length sent, a stored Content-Length is kept; Response.stream: every write appends to the "
         "buffered body and leaves no Content-Length, so the length sent afterwards is that of the body as it stands (compared "
         "with the implementation over sequences of stream.write / writelines / tell, set_data / data =, response.append, "
         "make_sequence, freeze, calculate_content_length, headers[Content-Length] = ... before serving). The status / method conditions of get_app_iter and get_wsgi_headers, the entity-header "
         "table and the status-phrase table are regenerated from the source on every run; the models are compared with "
         "werkzeug.wrappers.Response by differential execution over the product of body shapes x statuses x methods x preset / "
         "absent Content-Length x direct_passthrough with instrumented closable iterables, and over mutator sequences.",
    note="Trusted: Coq kernel; translator tools/c05.py (+ tools/c08.py); ExtrOcamlBasic extraction + drivers; UTF-8 model "
         "lib/Utf8.v for str body items; int() of a status string modelled on ASCII decimal digits; iri_to_uri, urljoin and "
         "get_current_url are parameters of the model with the contract ASCII in, ASCII out (iri_to_uri: ASCII out; its "
         "percent-encoding part is C15_uri_ascii), instantiated with the identity for the correspondence runs, which use Location "
         "values that iri_to_uri leaves alone; IRI Locations and autocorrect are also judged on the implementation by the harness "
         "oracle; the close clause is also checked through test.run_wsgi_app / Client.open / Response.from_app; Response.freeze, calculate_content_length, get_data, _ensure_sequence and add_etag are pinned statement by statement (freeze now closes the iterable it consumed: fix 17f1c6d); generator / iterator protocol, wsgi.file_wrapper and threads are runtime behaviour outside the model."
         " Statement pins: tools/pins/c05_response.txt: _iter_encoded and wrappers Response.__init__ / call_on_close / from_app / get_data / "
         "set_data / calculate_content_length / _ensure_sequence / make_sequence / iter_encoded / is_streamed / is_sequence / close / "
         "__enter__ / __exit__ / freeze / get_wsgi_headers / get_app_iter (translated conditions: holes) / get_wsgi_response / "
         "__call__ / add_etag / stream and the three class defaults, the ResponseStream class, sansio Response.__init__ / status / status_code / _clean_status, "
         "wsgi.ClosingIterator, remove_entity_headers, is_entity_header, test.run_wsgi_app; the Headers mutators are in "
         "tools/pins/c08_containers.txt. Validated differentially only, no pin wanted: urllib.parse.urljoin (CPython); iri_to_uri "
         "and get_current_url (contracts here; property C15 owns iri_to_uri), test.Client.open / Response.from_app callers "
         "(drivers only: a double close shows as a concrete failure).",
    design="6/C05")


# ====================================================================== translator

def _zexpr(e: ast.expr, atoms: dict[str, str]) -> str:
    t = ast.unparse(e)
    if t in atoms:
        return atoms[t]
    if isinstance(e, ast.Constant) and isinstance(e.value, int) and not isinstance(e.value, bool):
        return f"{e.value}%Z"
    raise px.Unsupported(f"integer expression not supported: {t}")


def _zcond(e: ast.expr, zatoms: dict[str, str], batoms: dict[str, str]) -> str:
    """boolean expression over integer comparisons and boolean atoms -> Gallina bool."""
    t = ast.unparse(e)
    if t in batoms:
        return batoms[t]
    if isinstance(e, ast.BoolOp):
        return "(" + (" && " if isinstance(e.op, ast.And) else " || ").join(_zcond(v, zatoms, batoms) for v in e.values) + ")"
    if isinstance(e, ast.UnaryOp) and isinstance(e.op, ast.Not):
        return f"(negb {_zcond(e.operand, zatoms, batoms)})"
    if isinstance(e, ast.Compare):
        parts = []
        left = e.left
        for op, right in zip(e.ops, e.comparators):
            if isinstance(op, (ast.In, ast.NotIn)):
                if not isinstance(right, ast.Tuple):
                    raise px.Unsupported(f"membership in a non-tuple: {t}")
                lst = "[" + "; ".join(_zexpr(x, zatoms) for x in right.elts) + "]"
                m = f"(zmem {_zexpr(left, zatoms)} {lst})"
                parts.append(m if isinstance(op, ast.In) else f"(negb {m})")
            else:
                sym = {ast.Lt: "<?", ast.LtE: "<=?", ast.Eq: "=?", ast.Gt: ">?", ast.GtE: ">=?"}.get(type(op))
                if sym is None:
                    raise px.Unsupported(f"comparison operator in {t}")
                parts.append(f"({_zexpr(left, zatoms)} {sym} {_zexpr(right, zatoms)})%Z")
            left = right
        return "(" + " && ".join(parts) + ")" if len(parts) > 1 else parts[0]
    raise px.Unsupported(f"condition not supported: {t}")


_ZREC = {"depth": 0, "texts": []}


def _zrecording(fn):
    def wrapped(e, *a, **k):
        top = _ZREC["depth"] == 0
        _ZREC["depth"] += 1
        try:
            return fn(e, *a, **k)
        finally:
            _ZREC["depth"] -= 1
            if top and not isinstance(e, (ast.Name, ast.Constant)):
                _ZREC["texts"].append(ast.unparse(e))
    return wrapped


_zcond = _zrecording(_zcond)


def gen() -> None:
    _ZREC["texts"].clear()
    deferred = None
    try:
        c08.gen()
    except px.Unsupported as e:      # reported at the end: a refusal in the containers must not stop this regeneration
        deferred = e
    wr = px.load("wrappers/response.py")
    sr = px.load("sansio/response.py")
    http = px.load("http.py")
    wsgi = px.load("wsgi.py")
    out = px.HEADER.format(tool="c05.py", src="wrappers/response.py, sansio/response.py, http.py, wsgi.py")
    out += "From Coq Require Import ZArith.\nFrom Wz Require Import C08.LibStr C05.Base.\n\n"
    R = px.find_class(wr, "Response")
    zat = {"status": "status"}

    # ---- get_app_iter: which iterable is returned
    b = c08._body(c08._method(R, "get_app_iter"))
    if len(b) != 3 or ast.unparse(b[0]) != "status = self.status_code" or not isinstance(b[1], ast.If) \
            or ast.unparse(b[2]) != "return ClosingIterator(iterable, self.close)":
        raise px.Unsupported("get_app_iter: statement sequence changed")
    i1 = b[1]
    if [ast.unparse(s) for s in i1.body] != ["iterable: t.Iterable[bytes] = ()"] or len(i1.orelse) != 1 or not isinstance(i1.orelse[0], ast.If):
        raise px.Unsupported("get_app_iter: first branch changed")
    i2 = i1.orelse[0]
    if ast.unparse(i2.test) != "self.direct_passthrough" or [ast.unparse(s) for s in i2.body] != ["return self.response"] \
            or [ast.unparse(s) for s in i2.orelse] != ["iterable = self.iter_encoded()"]:
        raise px.Unsupported("get_app_iter: passthrough / encoded branches changed")
    cond = _zcond(i1.test, zat, {"environ['REQUEST_METHOD'] == 'HEAD'": "is_head"})
    out += (f"Definition app_iter_kind (is_head : bool) (status : Z) (passthrough : bool) : aik :=\n"
            f"  if {cond} then AIEmptyClosing else if passthrough then AIPassthrough else AIEncodedClosing.\n")

    # ---- get_wsgi_headers: Content-Length / entity header conditions
    b = c08._body(c08._method(R, "get_wsgi_headers"))
    txt = [ast.unparse(s) for s in b]
    want_head = ["headers = Headers(self.headers)", "location: str | None = None", "content_location: str | None = None",
                 "content_length: str | int | None = None", "status = self.status_code",
                 "for key, value in headers:\n    ikey = key.lower()\n    if ikey == 'location':\n        location = value\n"
                 "    elif ikey == 'content-location':\n        content_location = value\n    elif ikey == 'content-length':\n"
                 "        content_length = value",
                 "if location is not None:\n    location = iri_to_uri(location)\n    if self.autocorrect_location_header:\n"
                 "        current_url = get_current_url(environ, strip_querystring=True)\n        current_url = iri_to_uri(current_url)\n"
                 "        location = urljoin(current_url, location)\n    headers['Location'] = location",
                 "if content_location is not None:\n    headers['Content-Location'] = iri_to_uri(content_location)"]
    if txt[:8] != want_head or len(b) != 11 or txt[10] != "return headers":
        raise px.Unsupported("get_wsgi_headers: statement sequence changed")
    s1, s2 = b[8], b[9]
    if not (isinstance(s1, ast.If) and [ast.unparse(s) for s in s1.body] == ["headers.remove('Content-Length')"]
            and len(s1.orelse) == 1 and isinstance(s1.orelse[0], ast.If) and not s1.orelse[0].orelse
            and [ast.unparse(s) for s in s1.orelse[0].body] == ["remove_entity_headers(headers)"]):
        raise px.Unsupported("get_wsgi_headers: Content-Length removal branches changed")
    out += f"Definition wsgi_strip_cl (status : Z) : bool := {_zcond(s1.test, zat, {})}.\n"
    out += f"Definition wsgi_strip_entity (status : Z) : bool := {_zcond(s1.orelse[0].test, zat, {})}.\n"
    if not (isinstance(s2, ast.If) and not s2.orelse and [ast.unparse(s) for s in s2.body] == [
            "content_length = sum((len(x) for x in self.iter_encoded()))", "headers['Content-Length'] = str(content_length)"]):
        raise px.Unsupported("get_wsgi_headers: automatic Content-Length block changed")
    bat = {"self.automatically_set_content_length": "auto", "self.is_sequence": "is_seq", "content_length is None": "cl_absent"}
    out += f"Definition wsgi_auto_cl (auto is_seq cl_absent : bool) (status : Z) : bool := {_zcond(s2.test, zat, bat)}.\n"
    # get_wsgi_response: headers first, then the iterable, the status line as stored
    if [ast.unparse(s) for s in c08._body(c08._method(R, "get_wsgi_response"))] != [
            "headers = self.get_wsgi_headers(environ)", "app_iter = self.get_app_iter(environ)",
            "return (app_iter, self.status, headers.to_wsgi_list())"]:
        raise px.Unsupported("get_wsgi_response changed")

    # ---- close chaining: pinned shapes of Response.close, call_on_close, make_sequence, ClosingIterator
    if [ast.unparse(s) for s in c08._body(c08._method(R, "close"))] != [
            "if hasattr(self.response, 'close'):\n    self.response.close()", "for func in self._on_close:\n    func()"]:
        raise px.Unsupported("Response.close changed")
    if [ast.unparse(s) for s in c08._body(c08._method(R, "call_on_close"))] != ["self._on_close.append(func)", "return func"]:
        raise px.Unsupported("Response.call_on_close changed")
    if [ast.unparse(s) for s in c08._body(c08._method(R, "make_sequence"))] != [
            "if not self.is_sequence:\n    close = getattr(self.response, 'close', None)\n    self.response = list(self.iter_encoded())\n"
            "    if close is not None:\n        self.call_on_close(close)"]:
        raise px.Unsupported("Response.make_sequence changed")
    if [ast.unparse(s) for s in c08._body(c08._method(R, "iter_encoded"))] != ["return _iter_encoded(self.response)"]:
        raise px.Unsupported("Response.iter_encoded changed")
    if [ast.unparse(s) for s in c08._body(px.find_def(wr, "_iter_encoded"))] != [
            "for item in iterable:\n    if isinstance(item, str):\n        yield item.encode()\n    else:\n        yield item"]:
        raise px.Unsupported("_iter_encoded changed")
    CI = px.find_class(wsgi, "ClosingIterator")
    if [ast.unparse(s) for s in c08._body(c08._method(CI, "__init__"))] != [
            "iterator = iter(iterable)", "self._next = t.cast(t.Callable[[], bytes], partial(next, iterator))",
            "if callbacks is None:\n    callbacks = []\nelif callable(callbacks):\n    callbacks = [callbacks]\nelse:\n    callbacks = list(callbacks)",
            "iterable_close = getattr(iterable, 'close', None)", "if iterable_close:\n    callbacks.insert(0, iterable_close)",
            "self._callbacks = callbacks"]:
        raise px.Unsupported("ClosingIterator.__init__ changed")
    if [ast.unparse(s) for s in c08._body(c08._method(CI, "close"))] != ["for callback in self._callbacks:\n    callback()"]:
        raise px.Unsupported("ClosingIterator.close changed")
    if [ast.unparse(s) for s in c08._body(c08._method(CI, "__next__"))] != ["return self._next()"]:
        raise px.Unsupported("ClosingIterator.__next__ changed")

    # ---- entity headers
    eh = px.find_assign(http, "_entity_headers")
    if not (isinstance(eh, ast.Call) and ast.unparse(eh.func) == "frozenset" and len(eh.args) == 1):
        raise px.Unsupported("_entity_headers is not frozenset([...])")
    ents = px.const(eh.args[0])
    fn = px.find_def(http, "remove_entity_headers")
    allowed = px.const(fn.args.defaults[0])
    if [ast.unparse(s) for s in c08._body(fn)] != [
            "allowed = {x.lower() for x in allowed}",
            "headers[:] = [(key, value) for key, value in headers if not is_entity_header(key) or key.lower() in allowed]"]:
        raise px.Unsupported("remove_entity_headers changed")
    if [ast.unparse(s) for s in c08._body(px.find_def(http, "is_entity_header"))] != ["return header.lower() in _entity_headers"]:
        raise px.Unsupported("is_entity_header changed")
    out += "Definition entity_headers : list str :=\n  [" + ";\n   ".join(px.coq_string_codes(x) for x in sorted(ents)) + "].\n"
    out += "Definition entity_allowed : list str :=\n  [" + "; ".join(px.coq_string_codes(x.lower()) for x in allowed) + "].\n"

    # ---- status phrases and _clean_status
    sc = px.const(px.find_assign(http, "HTTP_STATUS_CODES"))
    if not (isinstance(sc, dict) and all(isinstance(k, int) and isinstance(v, str) and v.isascii() for k, v in sc.items())):
        raise px.Unsupported("HTTP_STATUS_CODES is not an int -> ASCII str dict")
    out += "Definition status_codes : list (Z * str) :=\n  [" + ";\n   ".join(
        f"({k}%Z, {px.coq_string_codes(v)})" for k, v in sc.items()) + "].\n"
    S = px.find_class(sr, "Response")
    if [ast.unparse(s) for s in c08._body(c08._method(S, "_clean_status"))] != [
            "if isinstance(value, (int, HTTPStatus)):\n    status_code = int(value)\nelse:\n    value = value.strip()\n    if not value:\n"
            "        raise ValueError('Empty status argument')\n    code_str, sep, _ = value.partition(' ')\n    try:\n"
            "        status_code = int(code_str)\n    except ValueError:\n        return (f'0 {value}', 0)\n    if sep:\n"
            "        return (value, status_code)",
            "try:\n    status = f'{status_code} {HTTP_STATUS_CODES[status_code].upper()}'\nexcept KeyError:\n    status = f'{status_code} UNKNOWN'",
            "return (status, status_code)"]:
        raise px.Unsupported("_clean_status changed")
    dflt = [n for n in S.body if isinstance(n, ast.Assign) and ast.unparse(n.targets[0]) == "default_status"]
    if len(dflt) != 1 or px.const(dflt[0].value) != 200:
        raise px.Unsupported("default_status changed")
    for attr, val in (("automatically_set_content_length", True), ("autocorrect_location_header", False)):
        d = [n for n in R.body if isinstance(n, ast.Assign) and ast.unparse(n.targets[0]) == attr]
        if len(d) != 1 or px.const(d[0].value) is not val:
            raise px.Unsupported(f"Response.{attr} default changed")
    # set_data stores Content-Length = number of encoded bytes
    if [ast.unparse(s) for s in c08._body(c08._method(R, "set_data"))] != [
            "if isinstance(value, str):\n    value = value.encode()", "self.response = [value]",
            "if self.automatically_set_content_length:\n    self.headers['Content-Length'] = str(len(value))"]:
        raise px.Unsupported("Response.set_data changed")
    # body accessors: pinned statement sequences (the model mirrors them)
    if [ast.unparse(x) for x in c08._body(c08._method(R, "freeze"))] != [
            "close = getattr(self.response, 'close', None)", "self.response = list(self.iter_encoded())",
            "if close is not None:\n    close()", "self.headers['Content-Length'] = str(sum(map(len, self.response)))", "self.add_etag()"]:
        raise px.Unsupported("Response.freeze changed")
    if [ast.unparse(x) for x in c08._body(c08._method(R, "calculate_content_length"))] != [
            "try:\n    self._ensure_sequence()\nexcept RuntimeError:\n    return None", "return sum((len(x) for x in self.iter_encoded()))"]:
        raise px.Unsupported("Response.calculate_content_length changed")
    gd = [n for n in R.body if isinstance(n, ast.FunctionDef) and n.name == "get_data" and not n.decorator_list]
    if len(gd) != 1 or [ast.unparse(x) for x in c08._body(gd[0])] != [
            "self._ensure_sequence()", "rv = b''.join(self.iter_encoded())", "if as_text:\n    return rv.decode()", "return rv"]:
        raise px.Unsupported("Response.get_data changed")
    es = [ast.unparse(x) for x in c08._body(c08._method(R, "_ensure_sequence"))]
    if len(es) != 4 or not es[0].startswith("if self.is_sequence:") or not es[1].startswith("if self.direct_passthrough:\n    raise RuntimeError(") \
            or not es[2].startswith("if not self.implicit_sequence_conversion:\n    raise RuntimeError(") or es[3] != "self.make_sequence()":
        raise px.Unsupported("Response._ensure_sequence changed")
    if [ast.unparse(x) for x in c08._body(c08._method(R, "add_etag"))] != [
            "if overwrite or 'etag' not in self.headers:\n    self.set_etag(generate_etag(self.get_data()), weak)"]:
        raise px.Unsupported("Response.add_etag changed")
    px.write_if_changed(os.path.join(COQ, "C05", "Gen.v"), out)
    # ---- statement pins (after Gen.v is written): what the response model and its oracles stand for and is not translated;
    # the conditions translated by _zcond are holes
    holes = {t_: "<TRANSLATED-CONDITION>" for t_ in _ZREC["texts"] if len(t_) >= 8}
    keep = ["__init__", "call_on_close", "from_app", "get_data", "set_data", "calculate_content_length", "_ensure_sequence",
            "make_sequence", "iter_encoded", "is_streamed", "is_sequence", "close", "__enter__", "__exit__", "freeze",
            "get_wsgi_headers", "get_app_iter", "get_wsgi_response", "__call__", "add_etag", "stream"]
    drop = [m for m in c08._method_names(R) if m not in keep and m not in
            ("implicit_sequence_conversion", "autocorrect_location_header", "automatically_set_content_length", "data")]
    text = "# wrappers/response.py\n" + c08.pin_items(wr, ["_iter_encoded", ("Response", drop), "ResponseStream"], holes,
                                                      lambda a: isinstance(a, ast.AnnAssign) or ast.unparse(a.targets[0]) in drop)
    SR = px.find_class(sr, "Response")
    sdrop = [m for m in c08._method_names(SR) if m not in ("__init__", "status_code", "status", "_clean_status")]
    text += "# sansio/response.py\n" + c08.pin_items(sr, [("Response", sdrop)], holes, lambda a: True)
    text += "# wsgi.py\n" + c08.pin_items(wsgi, ["ClosingIterator"], holes)
    text += "# http.py\n" + c08.pin_items(http, ["remove_entity_headers", "is_entity_header"], holes)
    text += "# test.py\n" + c08.pin_items(px.load("test.py"), ["run_wsgi_app"], holes)
    px.check_pin("C05", "c05_response.txt", text, "a response / WSGI method the C05 model or its oracles stand for")
    if deferred is not None:
        raise deferred


# ====================================================================== harness

S, L, kvs, O, OL, OQ, exn_name = c08.S, c08.L, c08.kvs, c08.O, c08.OL, c08.OQ, c08.exn_name
BADS = ["a\rb", "a\nb", "a\r\nb", "\n"]
Lazy = c08.Lazy
# values that are not str instances: Headers stores str(value) after the same check
DIRTY = BADS + [Lazy(b) for b in BADS[:3]] + [ValueError("boom\r\nX: 1")]
CLEAN = ["ok", 7, Lazy("lazy text"), b"by\ntes", ValueError("boom"), 2.5]


class Closable:
    """an iterable without len() whose close() calls are counted"""

    def __init__(self, chunks):
        self.chunks = list(chunks)
        self.closed = 0
        self.log = None          # shared event log: "w" for this close, the callback ids for call_on_close callbacks

    def __iter__(self):
        return iter(self.chunks)

    def close(self):
        self.closed += 1
        if self.log is not None:
            self.log.append("w")


class NoClose:
    def __init__(self, chunks):
        self.chunks = list(chunks)

    def __iter__(self):
        return iter(self.chunks)


def _gen(chunks):
    yield from chunks


def item_tok(x) -> str:
    return "s" + S(x) if isinstance(x, str) else "b" + hexs(x)


def items_tok(xs) -> str:
    xs = list(xs)
    return "/".join(item_tok(x) for x in xs) if xs else "~"


BODY_SHAPES = ["str", "bytes", "list_str", "list_bytes", "tuple_bytes", "mixed", "empty_list", "none", "gen_bytes", "gen_str",
               "closable", "noclose", "filewrapper"]


def make_body(shape, rng):
    """(constructor argument, chunks the body yields, closable-counter object or None, is generator)"""
    import io
    from werkzeug.wsgi import FileWrapper
    texts = ["a", "", "héllo", "x" * 3, "€", "line\n"]
    bts = [b"ab", b"", b"\x00\xff", b"c" * 5, b"\r\n"]
    if shape == "str":
        s = rng.choice(texts)
        return s, [s.encode()], None, False
    if shape == "bytes":
        b = rng.choice(bts)
        return b, [b], None, False
    if shape == "list_str":
        l = [rng.choice(texts) for _ in range(rng.randint(1, 4))]
        return l, l, None, False
    if shape == "list_bytes":
        l = [rng.choice(bts) for _ in range(rng.randint(1, 4))]
        return l, l, None, False
    if shape == "tuple_bytes":
        l = tuple(rng.choice(bts) for _ in range(rng.randint(0, 3)))
        return l, list(l), None, False
    if shape == "mixed":
        l = [rng.choice(texts), rng.choice(bts), rng.choice(texts)]
        return l, l, None, False
    if shape == "empty_list":
        return [], [], None, False
    if shape == "none":
        return None, [], None, False
    if shape == "gen_bytes":
        l = [rng.choice(bts) for _ in range(rng.randint(0, 3))]
        return _gen(l), l, None, True
    if shape == "gen_str":
        l = [rng.choice(texts) for _ in range(rng.randint(0, 3))]
        return _gen(l), l, None, True
    if shape == "closable":
        l = [rng.choice(bts) for _ in range(rng.randint(0, 3))]
        c = Closable(l)
        return c, l, c, False
    if shape == "noclose":
        l = [rng.choice(bts) for _ in range(rng.randint(0, 3))]
        return NoClose(l), l, None, False
    if shape == "filewrapper":
        data = rng.choice([b"", b"abc", b"x" * 20])
        f = io.BytesIO(data)
        fw = FileWrapper(f, buffer_size=8)
        chunks = [data[i:i + 8] for i in range(0, len(data), 8)]
        cnt = Closable([])

        class CountingFW(FileWrapper):
            def close(self_inner):
                cnt.close()
                super().close()
        return CountingFW(f, buffer_size=8), chunks, cnt, False
    raise ValueError(shape)


STATUS_INTS = [100, 101, 103, 199, 200, 201, 204, 206, 301, 304, 400, 404, 418, 451, 499, 500, 599, 999, 0]
STATUS_STRS = ["200 OK", "404", "204 No Content", "299 Custom reason", "  304  Not Modified ", "wtf", "600", "100 Continue", "-5 x",
               "007 Bond", "500"]


def clean_status_expect(v):
    """transcription of the documented status forms -> (status line, code)"""
    from http import HTTPStatus
    from werkzeug.http import HTTP_STATUS_CODES
    if isinstance(v, (int, HTTPStatus)):
        code = int(v)
    else:
        v = v.strip()
        head, sep, _ = v.partition(" ")
        try:
            code = int(head)
        except ValueError:
            return f"0 {v}", 0
        if sep:
            return v, code
    return f"{code} {HTTP_STATUS_CODES.get(code, 'UNKNOWN').upper()}", code


def serve_case(chk, rng, shape, status, method, preset_cl, passthrough, ncb, pre, location=None, autocorrect=False, oracle=True, env_kw=None):
    """build a response, hand it to a WSGI server, observe; returns (model line or None, observation)"""
    from werkzeug.test import create_environ
    from werkzeug.wrappers import Response
    arg, chunks, counter, is_gen = make_body(shape, rng)
    chunks0 = list(chunks)
    if shape == "filewrapper":
        passthrough = True
    case = {"kind": "resp", "shape": shape, "status": repr(status), "method": method, "preset_cl": preset_cl,
            "direct_passthrough": passthrough, "callbacks": ncb,
            "pre": [[n_, repr(v_)] for n_, v_ in pre] if isinstance(pre, (list, tuple)) else pre, "location": location, "autocorrect": autocorrect,
            "environ": env_kw, "chunks": [repr(c) for c in chunks]}
    try:
        r = Response(arg, status=status, direct_passthrough=passthrough)
    except ValueError:
        return None, "ctor-ValueError"
    r.autocorrect_location_header = autocorrect
    if preset_cl == "absent":
        r.headers.pop("Content-Length", None)
    elif preset_cl is not None:
        r.headers["Content-Length"] = preset_cl
    if location is not None:
        r.headers["Location"] = location
    runs = [0] * ncb
    log: list = []
    if counter is not None:
        counter.log = log

    def make_cb(i):
        def cb():
            runs[i] += 1
            log.append(str(i))
        return cb
    for i in range(ncb):
        r.call_on_close(make_cb(i))
    before_hdrs = list(r.headers)
    user_cl = "Content-Length" in r.headers and preset_cl not in (None, "absent")
    is_seq0 = isinstance(arg if arg is not None else [], (list, tuple)) or isinstance(arg, (str, bytes))
    closable0 = hasattr(arg, "close")
    # what the application does with the body before handing the response over
    pre_tok = "0"
    body0 = b"".join(c.encode() if isinstance(c, str) else c for c in chunks)
    can_seq = (is_seq0 and not is_gen) or not passthrough
    try:
        if pre == "make_sequence" and not passthrough:
            r.make_sequence()
            pre_tok = "1"
        elif pre in ("get_data", "calc"):
            pre_tok = "g"
            try:
                got = r.get_data() if pre == "get_data" else r.calculate_content_length()
            except RuntimeError:
                got = RuntimeError
            want_v = (body0 if pre == "get_data" else len(body0)) if can_seq else (RuntimeError if pre == "get_data" else None)
            if oracle and got != want_v:
                chk.fail("wsgi-body-accessor", f"{pre} gave {got!r}, the body is {body0!r}", case)
        elif pre == "freeze":
            r.freeze()
            pre_tok = "f" + S(r.headers.get("ETag", ""))
            user_cl = False
            if oracle and (r.headers.get("Content-Length") != str(len(body0)) or not isinstance(r.response, list) or b"".join(r.response) != body0):
                chk.fail("wsgi-body-accessor", f"freeze: Content-Length {r.headers.get('Content-Length')!r}, body {r.response!r}, expected {body0!r}", case)
        elif pre == "set_data":
            v = rng.choice(["héllo", b"xyz", "", b"\x00" * 4])
            r.set_data(v)
            pre_tok = "d" + item_tok(v)
            chunks = [v.encode() if isinstance(v, str) else v]
            user_cl = False
            counter = None          # the replaced iterable is no longer the response's body
            if oracle and (r.headers.get("Content-Length") != str(len(chunks[0])) or r.get_data() != chunks[0]):
                chk.fail("wsgi-body-accessor", f"set_data({v!r}): Content-Length {r.headers.get('Content-Length')!r}, get_data {r.get_data()!r}", case)
        elif isinstance(pre, (list, tuple)):
            # a sequence of body edits before serving, with a reference for the stored length: ref_cl is the Content-Length
            # text the headers should hold (None: none), seq_now whether the body is a buffered sequence by now
            toks = []
            chunks = [c.encode() if isinstance(c, str) else c for c in chunks]
            ref_cl, seq_now = r.headers.get("Content-Length"), (is_seq0 and not is_gen)
            bytes_only = all(isinstance(c, bytes) for c in chunks0)      # tell() adds up len(item): characters for str items
            for name, v in pre:
                if name in ("w", "wl"):
                    vs = [v] if name == "w" else list(v)
                    n_ = r.stream.write(v) if name == "w" else r.stream.writelines(vs)
                    if oracle and name == "w" and n_ != len(v):
                        chk.fail("wsgi-body-accessor", f"stream.write({v!r}) returned {n_!r}", case)
                    toks += ["w" + item_tok(x) for x in vs]
                    chunks += vs
                    ref_cl, seq_now, user_cl = None, True, False
                elif name == "tell":
                    t_ = r.stream.tell()
                    toks.append("g")
                    seq_now = True
                    if oracle and ((bytes_only and t_ != len(b"".join(chunks))) or r.stream.encoding != "utf-8"):
                        chk.fail("wsgi-body-accessor", f"stream.tell() = {t_!r}, the body has {len(b''.join(chunks))} bytes", case)
                elif name in ("d", "D"):
                    if name == "d":
                        r.set_data(v)
                    else:
                        r.data = v
                    toks.append("d" + item_tok(v))
                    chunks = [v.encode() if isinstance(v, str) else v]
                    ref_cl, seq_now, user_cl, counter, bytes_only = str(len(chunks[0])), True, False, None, True
                elif name == "a":
                    if not isinstance(r.response, list):
                        continue
                    r.response.append(v)
                    toks.append("a" + item_tok(v))
                    chunks.append(v)
                    if ref_cl is not None:
                        user_cl = True          # a stored length gone stale behind the back of the response: the application's doing
                elif name == "1":
                    r.make_sequence()
                    toks.append("1")
                    seq_now = True
                elif name == "g":
                    got = r.calculate_content_length()
                    toks.append("g")
                    seq_now = True
                    if oracle and got != len(b"".join(chunks)):
                        chk.fail("wsgi-body-accessor", f"calculate_content_length() = {got!r}, the body has {len(b''.join(chunks))} bytes", case)
                elif name == "f":
                    r.freeze()
                    toks.append("f" + S(r.headers.get("ETag", "")))
                    ref_cl, seq_now, user_cl = str(len(b"".join(chunks))), True, False
                elif name == "c":
                    ref_cl = str(len(b"".join(chunks)))
                    r.headers["Content-Length"] = ref_cl
                    toks.append("c" + S(ref_cl))
                    user_cl = True
                if oracle and r.headers.get("Content-Length") != ref_cl:
                    chk.fail("wsgi-stored-length", f"after {name} {v!r}: the headers hold Content-Length {r.headers.get('Content-Length')!r}, "
                             f"the steps so far leave {ref_cl!r} (body {chunks!r})", case)
                    oracle = False
            pre_tok = ";".join(toks) or "0"
            case["expected_length_header"] = ref_cl if ref_cl is not None else (str(len(b"".join(chunks))) if seq_now else None)
    except Exception as e:  # noqa: BLE001
        if oracle:
            chk.fail("wsgi-response-raises", f"{pre} raised {e!r}", case)
        return None, "raised"
    case["pre_token"] = pre_tok
    env = create_environ(method=method, **env_kw) if env_kw else create_environ("/p", "http://localhost/base/", method=method)

    def go():
        app_iter, st, hdrs = r.get_wsgi_response(env)
        out = list(app_iter)
        if hasattr(app_iter, "close"):
            app_iter.close()
        return out, st, hdrs
    try:
        out, st, hdrs = with_timeout(go, 10)
    except Exception as e:  # noqa: BLE001
        if oracle and not (location is not None and isinstance(e, UnicodeError)):
            # (a Location that cannot be converted to a URI may be refused; it must not get through non-ASCII)
            chk.fail("wsgi-response-raises", f"get_wsgi_response / iteration raised {e!r}", case)
        return None, "raised"
    wrapped = counter.closed if counter is not None else None
    # ---------------- oracle: the property statement
    if oracle:
        code = r.status_code
        bodyless = method == "HEAD" or 100 <= code < 200 or code in (204, 304)
        want = b"".join(c.encode() if isinstance(c, str) else c for c in chunks)
        got_ok = all(isinstance(c, bytes) for c in out) or passthrough
        got = b"".join(c.encode() if isinstance(c, str) else c for c in out)
        bad = None
        if not isinstance(st, str) or (st, code) != clean_status_expect(status if status is not None else 200):
            bad = ("status", f"status {st!r} / code {code} for input {status!r}, expected {clean_status_expect(status if status is not None else 200)!r}")
        elif not all(type(k) is str and type(v) is str and "\r" not in v and "\n" not in v for k, v in hdrs):
            bad = ("header-hygiene", f"a header is not a newline-free native string: {hdrs!r}")
        elif not got_ok:
            bad = ("body-bytes", f"a non-bytes chunk was produced: {out!r}")
        elif got != (b"" if bodyless else want):
            bad = ("body-bytes", f"body bytes {got!r}, expected {(b'' if bodyless else want)!r}")
        else:
            cls = [v for k, v in hdrs if k.lower() == "content-length"]
            if (100 <= code < 200 or code == 204) and cls:
                bad = ("content-length", f"Content-Length {cls!r} sent with status {code}")
            elif not user_cl and cls and code != 304 and cls != [str(len(want))]:
                bad = ("content-length", f"werkzeug computed Content-Length {cls!r}, the body has {len(want)} bytes")
            elif not user_cl and not cls and is_seq0 and not (100 <= code < 200 or code in (204, 304)) and not passthrough:
                bad = ("content-length", "no Content-Length computed for a sequence body")
            if bad is None and "expected_length_header" in case and code == 200:
                exp = case["expected_length_header"]
                if cls != ([exp] if exp is not None else []):
                    bad = ("content-length", f"Content-Length {cls!r} reaches the server; the edits before serving leave {exp!r} "
                           f"and the body has {len(want)} bytes")
            loc = [v for k, v in hdrs if k.lower() == "location"]
            if bad is None and loc and not (loc[-1].isascii() and " " not in loc[-1]):
                bad = ("location", f"Location {loc[-1]!r} is not an ASCII URI")
            if bad is None and loc and autocorrect and "://" not in loc[-1]:
                bad = ("location", f"Location {loc[-1]!r} was not made absolute")
        if bad:
            chk.fail("wsgi-" + bad[0], bad[1], case)
        else:
            # close exactly once
            if any(x != 1 for x in runs):
                key = "direct-passthrough-callbacks" if (passthrough and not bodyless and all(x == 0 for x in runs)) else "close-callbacks"
                chk.fail(key, f"call_on_close callbacks ran {runs!r} times after the server closed the iterable "
                         f"(direct_passthrough={passthrough}, method {method}, status {code})", case)
            elif wrapped is not None and wrapped != 1:
                chk.fail("close-wrapped", f"the wrapped iterable's close() ran {wrapped} times", case)
            elif [x for x in log if x != "w"] != [str(i) for i in range(ncb)]:
                chk.fail("close-callbacks", f"the callbacks ran in the order {log!r}, registered in the order {list(range(ncb))!r}", case)
    # ---------------- model line
    line = None
    if location is None and not autocorrect:
        try:
            items = items_tok(chunks0)
            line = " ".join(["resp", str(r.status_code), S(r.status), kvs(before_hdrs, S), items,
                             str(int(is_seq0 and not is_gen)), str(int(closable0)), str(int(passthrough)), "1", str(ncb),
                             pre_tok, str(int(method == "HEAD"))])
        except Exception:  # noqa: BLE001
            line = None
    obs_chunks = "/".join(item_tok(c) for c in out) if out else "~"
    trace = ",".join(log) if log else "~"
    obs = " ".join([obs_chunks, S(st), kvs(hdrs, S), trace if counter is not None else "?" + trace])
    return line, obs


LONG_LABEL = "bücher" * 12          # one DNS label far over the 63 octet IDNA limit
LOCATIONS = ["/x", "/a b", "http://example.com/a?b=c", "/é", "http://bücher.example/ü?ä=ö", "rel/path", "//host/p", "?q=1", "/%7Euser",
             "relative/päth?q=ü#frägment", "//☃.net/snow", "https://üser:päss@bücher.example:8443/x",
             f"http://{LONG_LABEL}.example/next", f"//{LONG_LABEL}.example/next", "https://bücher..example/next",
             f"https://user@{LONG_LABEL}.example:8443/next?x=1#top", "http://é" + "a" * 70 + ".example/", "http://[::1]:80/ü"]


REQUEST_URLS = [dict(path="/ü/é", base_url="http://example.org/äpp/"), dict(path="/p", base_url="http://example.org/äpp/"),
                dict(path="/naïve path/x", base_url="http://localhost/"), dict(path="/x", base_url="http://bücher.example/"),
                dict(path="/x/", base_url="http://xn--bcher-kva.example/r/"), dict(path="/☃", base_url="https://xn--n3h.net:8443/"),
                dict(path="/é", base_url="http://bücher.example:8080/ü/", query_string="q=ü"), dict(path="/%7Eu/é", base_url="http://[::1]:5000/")]


def hygiene_ops(v):
    ops = []
    for k in ("a", "X-New"):
        ops += [("add", k, v), ("set", k, v), ("setkey", k, v), ("setdefault", k, v), ("setlist", k, (v,)), ("setlist", k, ("1", v)),
                ("setlist", k, (v, "2")), ("setlistdefault", k, (v,)), ("setlistdefault", k, ("1", v))]
    ops += [("extend", ("p", (("a", "1"), ("b", v)))), ("extend", ("d", {"b": v})), ("extend", ("d", {"b": ["1", v]})),
            ("extend", ("h", (("b", "1"),))), ("update", ("p", (("a", "1"), ("b", v)))), ("update", ("d", {"b": v, "c": "3"})),
            ("update", ("d", {"b": ["1", v]})), ("ior", ("d", {"a": v})), ("ior", ("p", (("a", v),))),
            ("setidx", 0, "k", v), ("setidx", 5, "k", v), ("setslice", 0, 1, (("k", v), ("l", "1"))), ("setslice", None, None, (("k", "1"), ("l", v)))]
    return ops


def entry_points_oracle(chk):
    """the mutator entry points that are not operations of the Coq model: keyword options, add_header, |, the
    constructors of Headers and Response.  A value with CR or LF must be refused everywhere."""
    import werkzeug.datastructures as ds
    from werkzeug.wrappers import Response
    n = 0
    for bad in DIRTY:
        tries = {
            "Headers([(k, bad)])": lambda: ds.Headers([("a", bad)]),
            "Headers({k: bad})": lambda: ds.Headers({"a": bad}),
            "Headers({k: [ok, bad]})": lambda: ds.Headers({"a": ["1", bad]}),
            "Headers(MultiDict)": lambda: ds.Headers(ds.MultiDict([("a", bad)])),
            "add(k, v, opt=bad)": lambda: ds.Headers().add("Content-Disposition", "attachment", filename=bad),
            "set(k, v, opt=bad)": lambda: ds.Headers().set("Content-Disposition", "attachment", filename=bad),
            "add_header(k, bad)": lambda: ds.Headers().add_header("a", bad),
            "add_header(k, v, opt=bad)": lambda: ds.Headers().add_header("a", "v", x=bad),
            "h | {k: bad}": lambda: ds.Headers() | {"a": bad},
            "h | {k: [bad]}": lambda: ds.Headers() | {"a": [bad]},
            "extend(**{k: bad})": lambda: ds.Headers().extend(a=bad),
            "update(**{k: bad})": lambda: ds.Headers().update(a=bad),
            "update(**{k: [ok, bad]})": lambda: ds.Headers().update(a=["1", bad]),
            "Response(headers=[(k, bad)])": lambda: Response(headers=[("a", bad)]),
            "Response(headers={k: bad})": lambda: Response(headers={"a": bad}),
            "Response(content_type=bad)": lambda: Response(content_type=bad),
            "Response(mimetype=bad)": lambda: Response(mimetype=bad),
            "response.headers[k] = bad": lambda: Response().headers.__setitem__("a", bad),
            "response.location = bad": lambda: setattr(Response(), "location", bad),
            "response.set_cookie(path=bad)": None,
        }
        for name, fn in tries.items():
            if fn is None:
                continue
            n += 1
            try:
                obj = fn()
            except ValueError:
                continue
            except Exception as e:  # noqa: BLE001
                if not isinstance(bad, str):
                    continue        # an argument that must be a str refused a non-str value in its own way: nothing was stored
                chk.fail("header-value-newline", f"{name} with {bad!r} raised {type(e).__name__} instead of ValueError", {"kind": "entry", "entry": name, "value": repr(bad)})
                continue
            chk.fail("header-value-newline", f"{name} accepted a value whose string form contains CR/LF: {bad!r}", {"kind": "entry", "entry": name, "value": repr(bad)})
        # bytes values are stored as their repr: no raw newline either
        h = ds.Headers()
        h.add("a", bad.encode() if isinstance(bad, str) else str(bad).encode())
        if any("\r" in v or "\n" in v for _, v in h):
            chk.fail("header-value-newline", "a bytes value stored a raw newline", {"kind": "entry", "entry": "bytes", "value": repr(bad)})
        chk.case(("entry", repr(bad)), nontrivial=True)
    chk.count("entry points(oracle only)", n)


class ClosableIter:
    """an iterator (not just an iterable) with its own close(), like a file or a cursor"""

    def __init__(self, chunks, counts):
        self._it = iter(chunks)
        self._counts = counts

    def __iter__(self):
        return self

    def __next__(self):
        return next(self._it)

    def close(self):
        self._counts["iterable.close"] += 1


def shared_cleanup_stage(chk):
    """an application that wraps every response in wsgi.ClosingIterator with ONE clean-up collection shared across requests
    (`ClosingIterator(resp(environ, start_response), CLEANUPS)`): over two and three requests each body is closed once, its
    call_on_close callbacks run once, each shared clean-up runs once per request, and the caller's collection is left as it was"""
    from werkzeug.test import create_environ
    from werkzeug.wrappers import Response
    from werkzeug.wsgi import ClosingIterator

    class Body:
        def __init__(self, i, events):
            self.i, self.events = i, events

        def __iter__(self):
            return iter([b"x", b"y"])

        def close(self):
            self.events.append(f"body{self.i}.close")

    forms = {"the same list": lambda a, b: [a, b], "a tuple": lambda a, b: (a, b), "a single callable": lambda a, b: a,
             "None": lambda a, b: None, "a list with one entry": lambda a, b: [a], "an empty list": lambda a, b: []}
    for form, build in forms.items():
        for nreq in (2, 3):
            for wrap_what in ("response", "raw iterable"):
                events: list = []
                shared = build(lambda: events.append("cleanup-a"), lambda: events.append("cleanup-b"))
                snapshot = list(shared) if isinstance(shared, (list, tuple)) else shared
                case = {"kind": "shared-cleanups", "callbacks": form, "requests": nreq, "wrapped": wrap_what}

                def app(environ, start_response, i):
                    if wrap_what == "raw iterable":
                        start_response("200 OK", [("Content-Length", "2")])
                        return ClosingIterator(Body(i, events), shared)
                    r = Response(Body(i, events))
                    r.call_on_close(lambda: events.append(f"resp{i}.on_close"))
                    return ClosingIterator(r(environ, start_response), shared)
                try:
                    for i in range(nreq):
                        it = app(create_environ("/"), lambda *a, **k: None, i)
                        data = b"".join(it)
                        it.close()
                        if data != b"xy":
                            chk.fail("wsgi-body-bytes", f"request {i}: body {data!r}", case)
                except Exception as e:  # noqa: BLE001
                    chk.fail("close-shared-callbacks", f"{type(e).__name__}: {e} escaped", case)
                    continue
                from collections import Counter
                got = Counter(events)
                per_req = {"the same list": 1, "a tuple": 1, "a list with one entry": 1}.get(form, 0)
                want = Counter()
                for i in range(nreq):
                    want[f"body{i}.close"] = 1
                    if wrap_what == "response":
                        want[f"resp{i}.on_close"] = 1
                want["cleanup-a"] = nreq if form in ("the same list", "a tuple", "a single callable", "a list with one entry") else 0
                want["cleanup-b"] = nreq if form in ("the same list", "a tuple") else 0
                want = +want
                now = list(shared) if isinstance(shared, (list, tuple)) else shared
                if got != want:
                    chk.fail("close-shared-callbacks", f"{nreq} requests sharing {form} of clean-ups around a {wrap_what}: close events "
                             f"{dict(got)!r}, each body / callback exactly once and each clean-up once per request is {dict(want)!r}", case)
                elif now != snapshot:
                    chk.fail("close-shared-callbacks", f"ClosingIterator changed the caller's clean-up collection: {len(snapshot)} entries before, "
                             f"{len(now)} after {nreq} requests", case)
                chk.case(("shared-cleanups", form, nreq, wrap_what), nontrivial=True)
    chk.count("shared clean-up collections across requests (oracle only)", len(forms) * 4)


def drivers_close_once(chk, rng, quick):
    """the close clause through werkzeug's own WSGI drivers: test.run_wsgi_app, Client.open and Response.from_app,
    buffered and streaming, for bodies with and without chunks"""
    from werkzeug.test import Client, create_environ, run_wsgi_app
    from werkzeug.wrappers import Response
    bodies = [[], [b""], [b"a"], [b"ab", b"", b"c"], [b"x"] * 5]
    cases = [(m, st, b) for m in ("GET", "HEAD", "POST") for st in (200, 204, 304, 404, 100) for b in bodies]
    n = 0
    for method, status, chunks in cases:
        for buffered in (True, False):
            for body_kind in ("iterator", "iterable", "list"):
                for driver in ("run_wsgi_app", "client", "from_app"):
                    counts = {"iterable.close": 0, "cb1": 0, "cb2": 0}

                    def app(environ, start_response):
                        body = ClosableIter(chunks, counts) if body_kind == "iterator" else (
                            Closable(chunks) if body_kind == "iterable" else list(chunks))
                        app.body = body
                        resp = Response(body, status=status)
                        resp.call_on_close(lambda: counts.__setitem__("cb1", counts["cb1"] + 1))
                        resp.call_on_close(lambda: counts.__setitem__("cb2", counts["cb2"] + 1))
                        return resp(environ, start_response)
                    case = {"kind": "driver", "driver": driver, "method": method, "status": status, "chunks": [repr(c) for c in chunks],
                            "buffered": buffered, "body": body_kind}
                    try:
                        if driver == "run_wsgi_app":
                            it, _, _ = run_wsgi_app(app, create_environ("/", method=method), buffered)
                            got = b"".join(it)
                            if hasattr(it, "close"):
                                it.close()
                        elif driver == "client":
                            r = Client(app).open("/", method=method, buffered=buffered)
                            got = r.get_data()
                            r.close()
                        else:
                            outer = Response.from_app(app, create_environ("/", method=method), buffered)
                            it, _, _ = outer.get_wsgi_response(create_environ("/", method=method))
                            got = b"".join(it)
                            it.close()
                    except Exception as e:  # noqa: BLE001
                        chk.fail("wsgi-response-raises", f"{driver} raised {e!r}", case)
                        continue
                    n += 1
                    if body_kind == "iterable":
                        counts["iterable.close"] = app.body.closed
                    elif body_kind == "list":
                        counts["iterable.close"] = 1
                    bodyless = method == "HEAD" or 100 <= status < 200 or status in (204, 304)
                    want = b"" if bodyless else b"".join(chunks)
                    if got != want:
                        chk.fail("wsgi-body-bytes", f"{driver}: body {got!r}, expected {want!r}", case)
                    elif any(v != 1 for v in counts.values()):
                        chk.fail("close-through-driver", f"{driver} ({'buffered' if buffered else 'streaming'}): close hooks ran {counts!r}, "
                                 f"each must run exactly once", case)
                    chk.case(("driver", driver, method, status, tuple(chunks), buffered, body_kind), nontrivial=True)
    chk.count("close through run_wsgi_app / Client / from_app", n)


def load_corpus():
    import json
    with open(os.path.join(os.path.dirname(COQ), "corpus", PID, "cases.json"), encoding="utf-8") as f:
        return json.load(f)


def _cmp_fields(a: str, b: str) -> bool:
    """a field of the implementation's observation starting with ? is a close trace in which the wrapped iterable's
    own close cannot be observed (generators): compare without it"""
    fa, fb = a.split(" "), b.split(" ")

    def same(x, y):
        if x == y:
            return True
        if x.startswith("?"):
            return x[1:] == y or x[1:] == (",".join(t for t in y.split(",") if t != "w") or "~")
        return False
    return len(fa) == len(fb) and all(same(x, y) for x, y in zip(fa, fb))


def run(chk: Check) -> None:
    import itertools
    import random
    from http import HTTPStatus
    import werkzeug.datastructures as ds
    rng = chk.rng
    quick = chk.tier == "quick"

    # ================================================ (a) header hygiene through every mutator
    R8 = c08.Runner(chk, ds)
    for c in load_corpus():
        if c["kind"] == "hd":
            c08.run_case(R8, c)
    states = [None, ("p", (("a", "1"),)), ("p", (("a", "1"), ("A", "2"), ("b", "3")))]
    for v in CLEAN + DIRTY:
        for st in states:
            for o in hygiene_ops(v):
                R8.hd(st, [o])
        for arg in (("p", (("a", "1"), ("b", v))), ("d", {"a": v}), ("d", {"a": ["1", v]}), ("h", (("a", "1"),)), ("m", {"a": ["1"]})):
            R8.hd(arg, [])
    mixed = (hygiene_ops("ok")[:6] + hygiene_ops("a\nb")[:9] + hygiene_ops("a\rb")[9:] + hygiene_ops(Lazy("x\ny"))[:4]
             + hygiene_ops(Lazy("fine"))[4:8] + [("delkey", "a"), ("pop",), ("clear",)])
    for st in (states[1:] if quick else states):
        for ops in itertools.product(mixed, repeat=2):
            R8.hd(st, ops)
    c08.FRESH[0] = True
    for _ in range(2000 if quick else 40000):
        R8.hd(rng.choice(c08.HD_INITS), [c08.hd_random_op(rng) for _ in range(rng.randint(3, 30))])
    c08.FRESH[0] = False
    # the oracle of the refusal clause on single operations
    for v in DIRTY:
        for st in states:
            for o in hygiene_ops(v):
                if repr(v) not in repr(o):
                    continue
                h = ds.Headers(None if st is None else c08.make_arg(st, ds))
                before = list(h)
                present = o[0] in ("setdefault", "setlistdefault") and o[1] in h
                try:
                    c08.hd_apply(h, o, ds)
                    raised = False
                except ValueError:
                    raised = True
                except IndexError:
                    raised = None
                case = {"kind": "hd", "init": st, "ops": [list(o)]}
                if raised is False and not present:
                    chk.fail("header-value-newline", f"{o!r} with a CR/LF value was not refused", case)
                if raised and o[0] in ("add", "set", "setkey", "setdefault", "setidx", "setslice") and list(h) != before:
                    chk.fail("header-refused-but-changed", f"{o!r} raised ValueError but changed the headers to {list(h)!r}", case)
    entry_points_oracle(chk)

    # ================================================ (b) the response product
    lines, impl = [], []
    st_lines, st_impl = [], []
    from werkzeug.sansio.response import Response as SR
    for v in STATUS_INTS + [HTTPStatus.OK, HTTPStatus.NOT_FOUND, HTTPStatus.NO_CONTENT, HTTPStatus.IM_A_TEAPOT] + STATUS_STRS + ["", "   "]:
        try:
            r = SR(status=v)
            got = f"ok {S(r.status)} {r.status_code}"
            if (r.status, r.status_code) != clean_status_expect(v):
                chk.fail("wsgi-status", f"status {v!r} gives {(r.status, r.status_code)!r}, expected {clean_status_expect(v)!r}", {"kind": "status", "value": repr(v)})
        except ValueError:
            got = "EValueError"
            if isinstance(v, str) and v.strip():
                chk.fail("wsgi-status", f"status {v!r} raised ValueError", {"kind": "status", "value": repr(v)})
        st_lines.append("st " + ("i" + str(int(v)) if isinstance(v, int) else "s" + S(v)))
        st_impl.append(got)
        chk.case(("status", repr(v)), nontrivial=True)
    statuses = STATUS_INTS[:-1] + [HTTPStatus.NO_CONTENT, HTTPStatus.OK] + STATUS_STRS[:5] + [None]
    methods = ["GET", "HEAD", "POST"]
    combos = []
    for shape in BODY_SHAPES:
        for status in statuses:
            for method in methods:
                for preset in (None, "absent", "5"):
                    for pt in (False, True):
                        combos.append((shape, status, method, preset, pt))
    random.Random(chk.seed).shuffle(combos)
    take = combos * (2 if quick else 20)
    for shape, status, method, preset, pt in take:
        ncb = rng.choice([0, 1, 3])
        pre = rng.choice([None, None, "make_sequence", "get_data", "calc", "freeze", "set_data"])
        line, obs = serve_case(chk, rng, shape, status, method, preset, pt, ncb, pre)
        chk.case(("resp", shape, repr(status), method, preset, pt, ncb, pre, obs), nontrivial=True,
                 sample={"shape": shape, "status": repr(status), "method": method, "preset_cl": preset, "direct_passthrough": pt, "obs": obs[:120]})
        chk.count(f"resp:{shape}")
        if line is not None:
            lines.append(line)
            impl.append(obs)
    # sequences of body edits before serving: Response.stream, set_data / data =, response.response.append, make_sequence,
    # freeze, calculate_content_length, headers[Content-Length] = ..., in any order
    edits = [("w", b"a"), ("w", b"more"), ("wl", (b"x", b"", b"yz")), ("tell", None), ("d", b"0123456789"), ("D", "h\u00e9llo"), ("d", b""),
             ("a", b"raw"), ("1", None), ("g", None), ("f", None), ("c", None)]
    eshapes = ["list_bytes", "tuple_bytes", "gen_bytes", "str", "empty_list", "closable", "noclose", "list_str"]
    seqs = [(e,) for e in edits] + [(a, b_) for a in edits for b_ in edits]
    if not quick:
        seqs += [(a, b_, c) for a in edits for b_ in edits for c in edits]
    for _ in range(1500 if quick else 30000):
        seqs.append(tuple(rng.choice(edits) for _ in range(rng.randint(3, 4))))
    n_seq = 0
    for sq in seqs:
        shape = rng.choice(eshapes)
        line, obs = serve_case(chk, rng, shape, 200, rng.choice(["GET", "GET", "HEAD"]), rng.choice([None, None, "absent"]), False,
                               rng.choice([0, 0, 2]), list(sq))
        chk.case(("edits", shape, tuple(n for n, _ in sq), obs), nontrivial=True)
        n_seq += 1
        if line is not None:
            lines.append(line)
            impl.append(obs)
    chk.count("body edit sequences", n_seq)
    # Location (IRI, relative, autocorrect): judged by the oracle only
    for loc in LOCATIONS:
        for ac in (False, True):
            for st in (302, 200):
                serve_case(chk, rng, "str", st, "GET", None, False, 0, None, location=loc, autocorrect=ac)
                chk.case(("location", loc, ac, st), nontrivial=True)
    for _ in range(600 if quick else 12000):
        loc = rng.choice(LOCATIONS)
        serve_case(chk, rng, rng.choice(["str", "list_bytes", "empty_list"]), rng.choice([301, 302, 201, 200, 304]), rng.choice(methods), None, False, 0, None,
                   location=loc, autocorrect=rng.random() < 0.5)
        chk.case(("location", loc, _), nontrivial=True)
    chk.count("location(oracle only)", 600 if quick else 12000)
    # the request URL the relative Location is joined onto: non-ASCII PATH_INFO / SCRIPT_NAME (create_environ stores them in the
    # latin-1 dance form), IDN and punycode hosts, a query string
    rel = ["next", "./n?x=1", "../up", "?q=1", "?q=ü", "#frag", "", "/abs", "//other.example/p", "http://example.com/a?b=c", "/é", "sub/päth"]
    n_env = 0
    for env_kw in REQUEST_URLS:
        for loc in rel:
            for ac in (True, False):
                serve_case(chk, rng, "str", rng.choice([302, 301, 201]), "GET", None, False, 0, None, location=loc, autocorrect=ac, env_kw=env_kw)
                chk.case(("location-env", env_kw["path"], env_kw["base_url"], loc, ac), nontrivial=True)
                n_env += 1
    chk.count("location x request URL(oracle only)", n_env)

    drivers_close_once(chk, rng, quick)
    shared_cleanup_stage(chk)

    # ================================================ model side
    exe8 = chk.build_modelrun("C08")
    if exe8:
        res = chk.run_model(exe8, R8.lines)
        if res is not None:
            mism = 0
            for ln, a, b in zip(R8.lines, R8.impl, res):
                if a != b:
                    mism += 1
                    if mism <= 3:
                        chk.broken("correspondence", "Headers model (C08/Model.v) vs werkzeug Headers", f"case {ln!r}: impl {a[:600]!r} model {b[:600]!r}",
                                   case={"line": ln, "impl": a, "model": b})
            chk.count("model:headers-compared", len(R8.lines))
            chk.count("model:headers-mismatches", mism)
    exe = chk.build_modelrun(PID)
    if exe:
        res = chk.run_model(exe, st_lines + lines)
        if res is not None:
            mism = 0
            for ln, a, b in zip(st_lines + lines, st_impl + impl, res):
                if not _cmp_fields(a, b):
                    mism += 1
                    if mism <= 5:
                        chk.broken("correspondence", "C05 model vs werkzeug Response", f"case {ln!r}: impl {a!r} model {b!r}",
                                   case={"line": ln, "impl": a, "model": b})
            chk.count("model:response-compared", len(lines) + len(st_lines))
            chk.count("model:response-mismatches", mism)


def replay(rep) -> int:
    import json
    import random
    import re
    from http import HTTPStatus
    import werkzeug.datastructures as ds
    chk = Check(PID, "quick", 0)
    inp = rep.get("input") or {}
    print("case:", json.dumps(inp, default=repr))
    if isinstance(inp, dict) and inp.get("kind") == "hd":
        R8 = c08.Runner(chk, ds)
        c08.run_case(R8, inp)
        for i, s in enumerate(R8.impl[0].split(" ")):
            print(f"  step {i}: {s}")
    elif isinstance(inp, dict) and inp.get("kind") == "resp":
        st = inp["status"]
        m = re.fullmatch(r"<HTTPStatus\.(\w+): \d+>", st)
        status = HTTPStatus[m.group(1)] if m else ast.literal_eval(st)
        for seed in range(20):       # the body content is random: try a few
            pre_ = [(n_, ast.literal_eval(v_)) for n_, v_ in inp["pre"]] if isinstance(inp["pre"], list) else inp["pre"]
            line, obs = serve_case(chk, random.Random(seed), inp["shape"], status, inp["method"], inp["preset_cl"],
                                   inp["direct_passthrough"], inp["callbacks"], pre_, inp.get("location"), inp.get("autocorrect", False),
                                   env_kw=inp.get("environ"))
            if chk.failures:
                print("observation (chunks, status, headers, wrapped close count, callback runs):", obs)
                break
    for f in chk.failures[:3]:
        print(f"PROPERTY FAILS key={f['key']}: {f['what']}")
    return 1 if chk.failures else 0


def main(chk: Check) -> None:
    try:
        gen()
    except px.Unsupported as e:
        chk.broken("translator", "C05/Gen.v", str(e))
    chk.forbidden_scan()
    if chk.coq_make(["C05/Proofs.vo", "C05/Extract.vo", "C08/Extract.vo"]):
        chk.audit_props("C05/Props.v")
    else:
        chk.cov["obligations"] += 1
    chk.trusted += [
        "translator tools/c05.py (+ tools/c08.py): the status / method conditions of get_app_iter and get_wsgi_headers, the "
        "entity-header and status-phrase tables are regenerated; the surrounding statement sequences (header scan loop, close "
        "chaining, ClosingIterator, _clean_status, set_data) are pinned and any other shape stops the translator",
        "extraction ExtrOcamlBasic (no Extract Constant) + tools/conv.ml + coq/C05/driver.ml and coq/C08/driver.ml, OCaml 4.13.1",
        "iri_to_uri is a parameter of the model (contract: ASCII result; property C15); urljoin / get_current_url (autocorrect) are not modelled",
        "UTF-8 model lib/Utf8.v for str body items; int() of a status string on ASCII decimal digits",
        "the iterator protocol of generators / file wrappers and the counting of close() calls are observed by the harness",
    ]
    try:
        run(chk)
    except Exception:  # noqa: BLE001
        import traceback
        chk.broken("harness-exception", "run", "an exception escaped the harness (the implementation raised where the harness does "
                   "not expect it):\n" + traceback.format_exc())
    chk.finish(rule="(a) every Headers mutator x {clean, CR, LF, CRLF, lone LF} value x three header states, every pair of a mixed clean/dirty "
                    "operation alphabet, random mutator sequences of length 3-30, all other entry points (constructors, keyword options, |, "
                    "Response arguments) by oracle; (b) the product of 13 body shapes x 27 status values (int, HTTPStatus, string) x "
                    "GET/HEAD/POST x Content-Length unset / removed / preset x direct_passthrough (every combination twice in the quick tier, 20 times in the thorough tier, with random body content), with 0/1/3 "
                    "close callbacks and optional make_sequence; Location values by oracle. Distinct by hash of the case and its observation.")
