"""C04  URL building and matching are mutually inverse."""
from __future__ import annotations

import re
import uuid as _uuid
from dataclasses import replace
from urllib.parse import parse_qsl, unquote, urlsplit

from . import pyextract as px
from . import c03
from .c03 import Adapter, Conv, MapSpec, RuleSpec, Seg, canon_args, canon_model, canon_value
from .vlib import Check, cps, uncps, with_timeout, ImplTimeout

PID = "C04"
CLAIM = dict(
    text="Coq theorems (Qed, closed under the global context) over an executable model of URL building (converter to_url, Rule.build with "
         "per-part quoting and defaults, suitable_for, build_compare_key order, MapAdapter.build) and urllib.parse.quote/unquote, on top of the "
         "matcher model of C03: per converter to_python(unquote(to_url v)) = v with the delivered text in the converter's language, for string "
         "(length options), path, int (signed, fixed_digits, min/max), any, uuid, and float over a stated contract of float()/str(); "
         "unquote(quote s) = s and int(str n) = n; C04_build_then_match / C04_match_then_build (in a map whose rules have distinct literal first "
         "segments the delivered built URL is matched by the building rule with exactly the built values, and rebuilding from the match gives "
         "the same URL), C04_build_match_build_subdomain (the same with a subdomain / host part on the rules and with float values, read through the "
         "float contract); the rule factories as functions on rules (coq/C04/Factories.v: Submount, Subdomain, EndpointPrefix, RuleTemplate): "
         "C04_build_then_match_sole (the map-level theorem for any map in which the building rule is the only rule admitting the built path), "
         "C04_submount_build_then_match / C04_admits_submount / C04_sole_admitter_submount, C04_subdomain_factory / C04_admits_subdomain, "
         "C04_endpoint_prefix, C04_template_subst; and the query extras of Rule.build(append_unknown=True): C04_build_match_extras (the built "
         "text is path + '?' + urlencode of the extra items - list values per element, None dropped, sorted under Map.sort_parameters -; the "
         "path matches back to the values and parse_qsl of the query string returns the extras, through C02's urlencode / parse_qsl model and "
         "its round-trip theorem). Tied to the code by the regenerated safe= strings, regex texts and decision functions of coq/C03/Gen.v and by "
         "differential execution (extracted model vs werkzeug) of to_url / unquote / to_python, MapAdapter.build and build-then-match.",
    note="Trusted: as C03; float(str(x)) = x and the shape of str(x) on positional floats are a Section contract validated by the harness; "
         "uuid values are carried as their 32 hex digits; maps built through the factories are compared with the model's factories applied to the "
         "inner rules, builds with extras with adapter_build_q; RuleTemplate is modelled for braced placeholders and $$ in the rule text (the "
         "unbraced form, templated defaults / endpoints / subdomains are outside), sort_key for itemgetter(0) and the natural order of string "
         "items, EndpointPrefix as an injective renaming of endpoint numbers; rules with several variables in one segment (10..13 variables, up to 12 in one segment) are outside the model's grammar - one variable per "
         "segment, so the matcher's ordering of a part's regex groups by name is the identity in the model - and are checked on the implementation "
         "only (build -> match returns the built values; this found the name-ordering defect fixed in the repository); "
         "float(min=, max=) bounds are not in the model's float converter: fractional bounds are checked on the implementation against the "
         "declarative meaning min <= v <= max (converter round trip and build -> match through a rule); "
         "that a built path has no '?' is a hypothesis of the split clause "
         "of C04_build_match_extras (AnyConverter.to_url does not quote its items); host_matching builds are modelled "
         "and compared (MapAdapter._partial_build's preference for the bound host), the map-level theorems cover host parts through dom_built.",
    design="6/C04")

FIRST = ["r0", "r1", "r2", "r3", "r4", "r5", "users", "all", "pages", "x.y", "é", "a b", "|", "a|b"]
STR_VALUES = ["a", "abc", "a b", "é", "ü ö", "a;b", "a?b", "a#b", "50%", "%41", "a&b=c", "x+y", "日本", "😀", "@:!$'()*,", "a\\b", "<x>", "{y}", "~._-",
              "\t", "a\nb", "ab", "xyz", "k;v", "matrix;a=1;b=2", "(x)*'!$@+", "a:b", "a,b", ";x", "x;"]
PATH_VALUES = ["a", "a/b", "x/y/z", "a b/c", "é/ü", "a;b/c?d", "50%/%41", "a//b", "a/b c/😀", "x#y/z", "a\nb/c", "a/b;c", "a/b;v=1/c;d",
               "d1/d2/f;p=1", "a/b:c,d=e"]


def gen_value_for(rng, c: Conv):
    """a value in the converter's canonical domain (what the property quantifies over)."""
    k = c.kind
    if k == "s":
        if c.exact is not None:
            return "".join(rng.choice("abé %;?#x") for _ in range(c.exact))
        lo = 1 if c.mn is None else c.mn
        hi = c.mx
        v = rng.choice(STR_VALUES)
        while len(v) < lo:
            v += rng.choice("abcé ")
        if hi is not None and len(v) > hi:
            v = v[:hi]
        return v
    if k == "i":
        lo = c.mn if c.mn is not None else (-50 if c.signed else 0)
        hi = c.mx if c.mx is not None else 100000
        if c.fixed:
            hi = min(hi, 10 ** c.fixed - 1)
            lo = max(lo, -(10 ** (c.fixed - 1) - 1) if c.fixed > 1 else 0)
        if not c.signed:
            lo = max(lo, 0)
        if lo > hi:
            return None
        return rng.choice([lo, hi, rng.randint(lo, hi), rng.randint(lo, min(hi, lo + 20))])
    if k == "f":
        for _ in range(20):
            x = round(rng.choice([rng.uniform(0, 10), rng.uniform(0, 100000), rng.random()]), rng.randint(1, 6))
            if c.signed and rng.random() < 0.4:
                x = -x
            s = str(x)
            if "e" not in s and "n" not in s:
                return float(x)
        return 1.5
    if k == "a":
        return rng.choice(list(c.items))
    if k == "u":
        return _uuid.UUID(int=rng.getrandbits(128))
    if k == "p":
        return rng.choice(PATH_VALUES)
    raise AssertionError(k)


def gen_conv_c04(rng) -> Conv:
    r = rng.random()
    if r < 0.2:
        return Conv("s")
    if r < 0.3:
        return Conv("s", exact=rng.choice([1, 2, 3]))
    if r < 0.38:
        mn = rng.choice([1, 2, 3])
        return Conv("s", mn=mn, mx=rng.choice([None, mn, mn + 2]))
    if r < 0.5:
        return Conv("i")
    if r < 0.6:
        return Conv("i", fixed=rng.choice([1, 2, 3, 5]), signed=rng.random() < 0.3)
    if r < 0.68:
        return Conv("i", signed=True, mn=rng.choice([None, 0, 3]), mx=rng.choice([None, 1000]))
    if r < 0.78:
        return Conv("f", signed=rng.random() < 0.4)
    if r < 0.88:
        return Conv("a", items=tuple(rng.sample(c03.ANY_ITEMS_PLAIN + ["foo_bar", "A1"], rng.randint(1, 3))))
    return Conv("u")


def gen_map_c04(rng) -> MapSpec:
    """pairwise non-overlapping rules: distinct literal first segment."""
    n = rng.randint(1, 5)
    firsts = rng.sample(FIRST, n + 2)
    rules = []
    names = list(c03.NAMES)
    sub = rng.random() < 0.3
    for i in range(n):
        pool = list(names)
        rng.shuffle(pool)
        segs = [Seg(lit=firsts[i])]
        for _ in range(rng.choice([0, 1, 1, 2, 3])):
            if rng.random() < 0.3:
                segs.append(Seg(lit=rng.choice(c03.LITS)))
            else:
                segs.append(Seg(pre=rng.choice(c03.PRE), conv=gen_conv_c04(rng), name=pool.pop(), post=rng.choice(c03.PRE)))
        tail = pool.pop() if rng.random() < 0.25 else None
        dom = Seg(lit="")
        if sub:
            dom = rng.choice([Seg(lit=""), Seg(lit="api"), Seg(conv=Conv("s"), name="sub")])
        rules.append(RuleSpec(idx=i, endpoint=i, segs=tuple(segs), tail=tail, branch=rng.random() < 0.4,
                              methods=rng.choice([None, None, ("GET",), ("GET", "POST")]), dom=dom))
    # rule defaults: a sibling with the same endpoint that fixes one int/string variable
    if rng.random() < 0.4:
        base = [r for r in rules if any(s.lit is None and s.conv.kind in "is" and s.conv.exact is None and not s.conv.fixed for s in r.segs)]
        if base:
            b = rng.choice(base)
            j = rng.choice([k for k, s in enumerate(b.segs) if s.lit is None and s.conv.kind in "is" and s.conv.exact is None and not s.conv.fixed])
            v = b.segs[j]
            dv = gen_value_for(rng, v.conv)
            if dv is not None:
                segs = (Seg(lit=firsts[n]),) + tuple(s for k, s in enumerate(b.segs[1:], 1) if k != j)
                rules.append(replace(b, idx=len(rules), segs=segs, defaults=((v.name, dv),)))
    ms = MapSpec(rules=tuple(rules), strict=rng.random() < 0.8, merge=rng.random() < 0.8, redirect_defaults=rng.random() < 0.7)
    if rng.random() < 0.18:
        # host_matching: every rule carries a host pattern (literal host, or <sub>.example.com)
        hosts = [Seg(lit="example.com"), Seg(lit="example.com"), Seg(lit="api.example.com"),
                 Seg(conv=Conv("s"), name="sub", post=".example.com")]
        new_rules, by_ep = [], {}
        for r in ms.rules:
            h = by_ep.get(r.endpoint) or rng.choice(hosts)
            if h.lit is None and any(s_.lit is None and s_.name == "sub" for s_ in r.segs):
                h = hosts[0]
            by_ep.setdefault(r.endpoint, h)
            new_rules.append(replace(r, dom=h))
        # the same endpoint and arguments under another first literal on another literal host:
        # _partial_build prefers the rule whose host is the bound server name
        with_defaults = {r.endpoint for r in new_rules if r.defaults}
        cand = [r for r in new_rules if r.dom.lit is not None and r.endpoint not in with_defaults]
        if cand and rng.random() < 0.6:
            r = rng.choice(cand)
            other = "api.example.com" if r.dom.lit == "example.com" else "example.com"
            twin = replace(r, idx=len(new_rules), segs=(Seg(lit=firsts[n + 1]),) + r.segs[1:], dom=Seg(lit=other))
            new_rules.insert(rng.randrange(len(new_rules) + 1), twin)
            new_rules = [replace(x, idx=i) for i, x in enumerate(new_rules)]
        # rules of one endpoint (the defaults sibling) may live on different hosts: _partial_build prefers the bound host
        ms = replace(ms, rules=tuple(new_rules), host_matching=True)
    return ms


def make_with_factories(ms: MapSpec, rng=None):
    """the same map built through Submount / Subdomain / EndpointPrefix / RuleTemplate rule factories (Rule.empty() copies):
    (Map, by_obj, ms', fenc) - ms' is the flattened map the factories denote (endpoints renumbered under EndpointPrefix),
    fenc the rules as the model driver takes them: the inner rule and the factory operations coq/C04/Factories.v applies."""
    from werkzeug.routing import EndpointPrefix, Map, Rule, RuleTemplate, Subdomain, Submount
    prefix = rng is not None and rng.random() < 0.4 and all(r.endpoint < 100 for r in ms.rules)
    if prefix:
        ms = replace(ms, rules=tuple(replace(r, endpoint=r.endpoint + 100) for r in ms.rules))
    facs, encs = [], []
    for r in ms.rules:
        ops = []
        first = r.segs[0].lit
        rest_items = [s_.text() for s_ in r.segs[1:]] + ([f"<path:{r.tail}>"] if r.tail else [])
        ep_name = f"{r.endpoint - 100:02d}" if prefix else f"e{r.endpoint}"
        kw = dict(endpoint=ep_name, methods=list(r.methods) if r.methods is not None else None,
                  defaults=dict(r.defaults) if r.defaults else None)
        inner_spec = replace(r, dom=Seg(lit=""), endpoint=r.endpoint - 100 if prefix else r.endpoint)
        plain = "$" not in r.string() and "$" not in r.dom.text() and not any(isinstance(v, str) and "$" in v for _, v in r.defaults)
        if rng is not None and plain and rng.random() < 0.3:
            # RuleTemplate: the first literal (or the first two, as one value with a slash) comes from the context
            n_lit = 2 if len(r.segs) > 1 and r.segs[1].lit is not None and rng.random() < 0.5 else 1
            value = "/".join(s_.lit for s_ in r.segs[:n_lit])
            items = ["${p}"] + [s_.text() for s_ in r.segs[n_lit:]] + ([f"<path:{r.tail}>"] if r.tail else [])
            inner = Rule("/" + "/".join(items) + ("/" if r.branch else ""), **kw)
            fac = RuleTemplate([inner])(p=value)
            inner_spec = replace(inner_spec, segs=(Seg(lit="${p}"),) + tuple(r.segs[n_lit:]))
            ops.append(f"T{cps('p')}={cps(value)}")
        elif not rest_items and not r.branch:
            inner = Rule(r.string(), **kw)
            fac = inner
        else:
            inner = Rule("/" + "/".join(rest_items) + ("/" if r.branch and rest_items else ""), **kw)
            fac = Submount("/" + first, [inner])
            inner_spec = replace(inner_spec, segs=tuple(r.segs[1:]), branch=bool(r.branch and rest_items))
            ops.append("M" + Seg(lit=first).enc())
        d = r.dom.text()
        if d:
            fac = Subdomain(d, [fac])
            ops.append("D" + r.dom.enc())
        if prefix:
            ops.append("E100")
        facs.append(fac)
        encs.append(inner_spec.enc() + (";" + "!".join(ops) if ops else ""))
    if prefix:
        facs = [EndpointPrefix("e1", facs)]
    m = Map(facs, strict_slashes=ms.strict, merge_slashes=ms.merge, redirect_defaults=ms.redirect_defaults)
    by = {}
    specs = {(r.string(), f"e{r.endpoint}", r.dom.text()): r for r in ms.rules}
    for ro in m.iter_rules():
        by[id(ro)] = specs[(ro.rule, ro.endpoint, ro.subdomain or "")]
    m._verif_objs = list(m.iter_rules())
    return m, by, ms, "+".join(encs)


def enc_value(v) -> str:
    if isinstance(v, bool):
        raise AssertionError
    if isinstance(v, int):
        return f"I{v}"
    if isinstance(v, float):
        return "F" + cps(str(v))
    if isinstance(v, _uuid.UUID):
        return "U" + cps(v.hex)
    return "S" + cps(v)


def enc_vals(d: dict) -> str:
    return "|".join(f"{cps(k)}={enc_value(v)}" for k, v in d.items()) if d else "_"


def mk_conv_obj(m, c: Conv):
    """the werkzeug converter object for a Conv (for direct to_url / to_python / regex checks)."""
    from werkzeug.routing import converters as wc
    k = c.kind
    if k == "s":
        return wc.UnicodeConverter(m, minlength=1 if c.mn is None else c.mn, maxlength=c.mx, length=c.exact)
    if k == "i":
        return wc.IntegerConverter(m, fixed_digits=c.fixed, min=c.mn, max=c.mx, signed=c.signed)
    if k == "f":
        return wc.FloatConverter(m, signed=c.signed)
    if k == "a":
        return wc.AnyConverter(m, *c.items)
    if k == "u":
        return wc.UUIDConverter(m)
    return wc.PathConverter(m)


def deliver(ad: Adapter, ms: MapSpec, url: str):
    """what a server bound like `ad` receives for `url`: (adapter for the addressed host, PATH_INFO, query) or None."""
    sp = urlsplit(url)
    host = sp.netloc or None
    nxt = ad
    if host is not None:
        if ms.host_matching:
            nxt = replace(ad, server=host)
        elif host == ad.server:
            nxt = replace(ad, subdomain="")
        elif host.endswith("." + ad.server):
            nxt = replace(ad, subdomain=host[: -len(ad.server) - 1])
        else:
            return None
    script = ad.script if ad.script.endswith("/") else ad.script + "/"
    prefix = script.rstrip("/")
    if not sp.path.startswith(prefix + "/"):
        return None
    return nxt, unquote(sp.path[len(prefix):]), sp.query


def deliver_environ(m, by_obj, ad: Adapter, url: str, host_matching: bool = False) -> str:
    """route the built URL as a WSGI application would: create_environ(target, base_url) then bind_to_environ(environ).match()"""
    from werkzeug.test import create_environ
    sp = urlsplit(url)
    host = sp.netloc or ((ad.subdomain + "." if ad.subdomain else "") + ad.server)
    script = (ad.script if ad.script.endswith("/") else ad.script + "/").rstrip("/")
    target = url[url.index(sp.path, (len(sp.scheme) + 3 + len(sp.netloc)) if sp.netloc else 0):] if sp.netloc else url
    if not target.startswith(script + "/"):
        return "OFFROOT"
    rel = target[len(script):]
    try:
        env = create_environ(rel, base_url=f"{ad.scheme}://{host}{script}/")
        a = m.bind_to_environ(env, server_name=None if host_matching else ad.server)
    except Exception as e:  # noqa: BLE001
        return "EXN " + type(e).__name__
    return c03.observe(a, by_obj, None, "GET")


def values_equal(a: dict, b: dict) -> bool:
    if a.keys() != b.keys():
        return False
    return all(type(a[k]) is type(b[k]) and a[k] == b[k] for k in a)


def load_corpus_c04():
    """[(Conv, value)] from corpus/C04/*.json : minimised past failures, run first"""
    import glob
    import json
    import os
    from .vlib import VERIF
    out = []
    for f in sorted(glob.glob(os.path.join(VERIF, "corpus", "C04", "*.json"))):
        with open(f, encoding="utf-8") as fh:
            d = json.load(fh)
        for c in d.get("cases", []):
            v = c["value"]
            if c.get("type") == "uuid":
                v = _uuid.UUID(v)
            elif c.get("type") == "float":
                v = float(v)
            out.append((c03._conv_from(c["conv"]), v))
    return out


def run(chk: Check) -> None:
    from werkzeug.routing import BuildError, Map
    rng = chk.rng
    quick = chk.tier == "quick"
    lines, expect = [], []

    # ---------------- per converter: to_url -> unquote -> regex -> to_python
    dummy = Map([])
    n_conv = 4000 if quick else 60000
    fixed_convs = [Conv("s"), Conv("p"), Conv("i"), Conv("i", fixed=3), Conv("i", signed=True), Conv("i", fixed=3, signed=True),
                   Conv("f"), Conv("f", signed=True), Conv("u"), Conv("a", items=("a", "x-y", "a.b"))]
    corpus = load_corpus_c04()
    for i in range(n_conv):
        c = fixed_convs[i] if i < len(fixed_convs) else (Conv("p") if rng.random() < 0.12 else gen_conv_c04(rng))
        v = gen_value_for(rng, c)
        if i < len(corpus):
            c, v = corpus[i]
        if v is None:
            continue
        if i >= len(corpus) and c.kind in "sp" and rng.random() < 0.3:
            alpha = "ab/ %;?#&=+@é😀\n\x7f" if c.kind == "p" else "ab %;?#&=+@é😀\n\x7f"
            v = "".join(rng.choice(alpha) for _ in range(rng.randint(1, 6)))
            if c.kind == "p":
                v = v.strip("/") or "a"
        co = mk_conv_obj(dummy, c)
        try:
            u = co.to_url(v)
            d = unquote(u)
            lang = re.compile(co.regex + r"\Z").match(d) is not None
            try:
                back = co.to_python(d)
                back_s = canon_value(back)
            except ValueError:
                back, back_s = None, "REJECT"
            obs = f"U {cps(u)} D {cps(d)} L {str(lang).lower()} P {back_s}"
        except Exception as e:  # noqa: BLE001
            obs = "EXN " + type(e).__name__
            u = d = None
            lang, back = False, None
        chk.count(f"conv:{c.kind}")
        # the property, per converter: the built text is accepted by the converter and converts back to the value
        in_domain = True
        if c.kind == "s":
            lo = 1 if c.mn is None else c.mn
            in_domain = "/" not in v and (len(v) == c.exact if c.exact is not None else (len(v) >= lo and (c.mx is None or len(v) <= c.mx)))
        if c.kind == "p":
            in_domain = not v.startswith("/") and not v.endswith("/")
        if in_domain:
            if u is None or not lang or back is None or type(back) is not type(v) or back != v:
                key = "converter-roundtrip"
                if c.kind == "p" and isinstance(v, str) and "\n" in v[1:]:
                    key = "path-value-with-newline"
                chk.fail(key, f"{c.text()}: to_url({v!r}) = {u!r}, delivered {d!r}, in language: {lang}, to_python: {back!r}",
                         {"converter": c.text(), "value": repr(v)})
        if c.kind == "f":
            # the Section contract of the float theorem, validated on the canonical domain
            s = str(v)
            if float(s) != v or not re.fullmatch(("-?" if c.signed else "") + r"\d+\.\d+", s):
                chk.fail("float-contract", f"float(str(x)) != x or str(x) not positional for {v!r}", {"value": repr(v)})
        lines.append(f"rt {c.enc()} {enc_value(v)}")
        want = obs
        if c.kind == "f" and obs.startswith("U "):
            want = obs[: obs.rindex(" P ")] + " P F" + cps(d)      # the model carries the text
        if c.kind == "u" and obs.startswith("U "):
            want = obs[: obs.rindex(" P ")] + " P U" + cps(back.hex if back is not None else "")
        expect.append(want)
        chk.case(("rt", c.enc(), repr(v)), nontrivial=True, sample={"converter": c.text(), "value": repr(v), "impl": obs[:80]})

    # ---------------- unquote directly
    for _ in range(1500 if quick else 20000):
        s = "".join(rng.choice(["%", "%4", "%41", "%C3%A9", "%c3", "%ZZ", "%2F", "a", "é", "/", "%E2%82%AC", "%F0%9F%98%80", "%80", "+", " "])
                    for _ in range(rng.randint(0, 6)))
        lines.append(f"unq {cps(s)}")
        expect.append(cps(unquote(s)))
        chk.case(("unq", s), nontrivial="%" in s)

    # ---------------- maps: build, deliver, match, rebuild
    n_maps = 520 if quick else 7500
    for mi in range(n_maps):
        ms = gen_map_c04(rng)
        try:
            if rng.random() < 0.3 and not ms.host_matching:
                m, by_obj, ms, menc = make_with_factories(ms, rng)
                chk.count("map:factories")
                for tag, key in (("!E", "endpoint-prefix"), (";T", "rule-template"), (";M", "submount"), ("!DL", "subdomain"), (";DL", "subdomain")):
                    if tag in menc:
                        chk.count("map:factory:" + key)
            else:
                m, by_obj = ms.make()
                menc = ms.enc()
        except Exception as e:  # noqa: BLE001
            chk.fail("map-construction", f"{type(e).__name__}: {e}", {"map": ms.describe()})
            continue
        script = rng.choice(["/", "/app", "/app/"])
        subs = [None, ""]
        if any(r.dom.text() for r in ms.rules):
            subs = [None, "api", "de"]
        if ms.host_matching:
            subs = [None]
            chk.count("map:host_matching")
        ad = Adapter(scheme=rng.choice(["http", "https"]), server=rng.choice(["example.com", "api.example.com"]) if ms.host_matching else "example.com",
                     script=script, subdomain=rng.choice(subs))
        a = ad.bind(m)
        for _ in range(8):
            r = rng.choice(ms.rules)
            vals = {}
            ok = True
            for name, c in r.convs():
                if name in dict(r.defaults):
                    continue
                v = gen_value_for(rng, c) if name != "sub" else rng.choice(["api", "de", "x1"])
                if v is None:
                    ok = False
                vals[name] = v
            if not ok:
                continue
            given = dict(vals)
            for k, dv in r.defaults:
                if rng.random() < 0.5:
                    given[k] = dv
            want_vals = dict(vals)
            want_vals.update(dict(r.defaults))
            fe = rng.random() < 0.4
            meth = rng.choice([None, None, "GET"])
            chk.count("build:" + ("external" if fe else "internal"))
            try:
                url = with_timeout(a.build, 5.0, f"e{r.endpoint}", dict(given), method=meth, force_external=fe)
                obs = "U " + cps(url)
            except BuildError:
                url, obs = None, "NONE"
            except ImplTimeout:
                url, obs = None, "TIMEOUT"
            except Exception as e:  # noqa: BLE001
                url, obs = None, "EXN " + type(e).__name__
            lines.append(f"build {ms.cfg()} {menc} {ad.enc()} {r.endpoint} {enc_vals(given)} {'~' if meth is None else cps(meth)} {int(fe)}")
            expect.append(obs)
            info = {"map": ms.describe(), "adapter": {"scheme": ad.scheme, "server": ad.server, "script": ad.script, "subdomain": ad.subdomain, "query": None},
                    "endpoint": f"e{r.endpoint}", "values": {k: repr(v) for k, v in given.items()}, "force_external": fe, "path": None, "method": "GET"}
            chk.case(("build", ms.enc(), ad.enc(), r.endpoint, repr(given), fe), nontrivial=True,
                     sample={"rules": [x.string() for x in ms.rules], "endpoint": r.endpoint, "values": repr(given)[:80], "url": (url or obs)[:80]})
            if url is None:
                chk.fail("build-fails", f"build(e{r.endpoint}, {given!r}) -> {obs} for values in the canonical domains", info)
                continue
            dl = deliver(ad, ms, url)
            if dl is None:
                chk.fail("built-url-off-root", f"built URL {url!r} is not under the bound host / script root", info)
                continue
            nxt, path_info, query = dl
            info["path"] = path_info
            mobs = c03.run_impl(m, nxt, by_obj, path_info, "GET")
            # model: the same composition
            lines.append(f"b2m {ms.cfg()} {menc} {ad.enc()} {r.endpoint} {enc_vals(given)} {cps('GET')}")
            expect.append(mobs)
            if r.methods is not None and "GET" not in {x.upper() for x in r.methods}:
                continue
            if not mobs.startswith("M "):
                key = "build-then-match"
                if any("\n" in str(v)[1:] for v in given.values() if isinstance(v, str)) and r.tail:
                    key = "path-value-with-newline"
                chk.fail(key, f"build -> {url!r}; delivered {path_info!r} answers {mobs if not mobs.startswith('R ') else 'R ' + uncps(mobs[2:])}", info)
                continue
            _, idx, ep, args = mobs.split(" ")
            if int(ep) != r.endpoint or args != canon_args(want_vals):
                chk.fail("build-then-match", f"build -> {url!r}; match gives e{ep} {args}, expected e{r.endpoint} {canon_args(want_vals)}", info)
                continue
            # the same URL delivered the way a server delivers it: a WSGI environ (werkzeug.test.create_environ, as the
            # test client does) routed with Map.bind_to_environ, PATH_INFO percent-decoded by the environ builder
            if "\n" not in url:
                eobs = deliver_environ(m, by_obj, ad, url, ms.host_matching)
                chk.count("deliver:environ")
                if eobs != mobs:
                    chk.fail("build-then-match-environ",
                             f"build -> {url!r}; delivered through create_environ + bind_to_environ it answers "
                             f"{eobs if not eobs.startswith('R ') else 'R ' + uncps(eobs[2:])}, delivered percent-decoded it answers {mobs}", info)
            # conversely: the URL built from the result of the match is the URL that was matched
            try:
                rule2, vals2 = nxt.bind(m).match(path_info, "GET", return_rule=True)
                url2 = nxt.bind(m).build(rule2.endpoint, dict(vals2), method=meth, force_external=fe)
                url1 = nxt.bind(m).build(f"e{r.endpoint}", dict(given), method=meth, force_external=fe)
                if url2 != url1:
                    chk.fail("match-then-build", f"matched {path_info!r} -> {vals2!r}; rebuilt {url2!r} != {url1!r}", info)
            except Exception as e:  # noqa: BLE001
                chk.fail("match-then-build", f"rebuild raised {type(e).__name__}: {e}", info)
            # extra query values: Rule.build(values, append_unknown=True) -> _encode_query_vars -> werkzeug.urls._urlencode
            if rng.random() < 0.45:
                pool_v = ["1", "a b", "é/ü", "50%", "x=y&z", ["1", "2"], 7, -3, None, ["b", None, "a"], [], "", "?#", [2, "x"]]
                extras = {}
                for _k in range(rng.randint(1, 3)):
                    extras[rng.choice(["q", "x y", "é", "a&b", "b", "a", "Z"])] = rng.choice(pool_v)
                extras = {k: v for k, v in extras.items() if k not in given and k not in dict(r.defaults) and k not in [n for n, _ in r.convs()]}
                if extras:
                    flat = [(k, x) for k, v in extras.items() if v is not None for x in (v if isinstance(v, list) else [v])]
                    all_str = all(isinstance(x, str) for _, x in flat)
                    srt = rng.choice([0, 0, 1, 2]) if all_str else rng.choice([0, 0, 1])
                    m.sort_parameters, m.sort_key = (srt != 0), ((lambda kv: kv[0]) if srt == 1 else None)
                    try:
                        urlq = a.build(f"e{r.endpoint}", {**given, **extras}, method=meth, force_external=fe)
                        qobs = "U " + cps(urlq)
                        q = urlsplit(urlq).query
                        want = [(k, str(x)) for k, x in flat if x is not None]
                        if srt == 1:
                            want = sorted(want, key=lambda kv: kv[0])
                        elif srt == 2:
                            want = sorted(want)
                        # the oracle: the path is the URL built without the extras; the query string decodes to the extras
                        if parse_qsl(q, keep_blank_values=True) != want or urlq.split("?")[0] != url or (not want) != ("?" not in urlq):
                            chk.fail("query-extras", f"extras {extras!r} (sort mode {srt}) -> {urlq!r}, expected items {want!r}", info)
                    except Exception as e:  # noqa: BLE001
                        qobs = "EXN " + type(e).__name__
                        chk.fail("query-extras", f"build with extras raised {type(e).__name__}: {e}", info)
                    finally:
                        m.sort_parameters, m.sort_key = False, None

                    def enc_x(v):
                        if v is None:
                            return "N"
                        if isinstance(v, list):
                            return "L" + ("/".join("N" if x is None else enc_value(x) for x in v) if v else "_")
                        return enc_value(v)
                    lines.append(f"buildq {srt} {ms.cfg()} {menc} {ad.enc()} {r.endpoint} {enc_vals(given)} "
                                 + "|".join(f"{cps(k)}={enc_x(v)}" for k, v in extras.items())
                                 + f" {'~' if meth is None else cps(meth)} {int(fe)}")
                    expect.append(qobs)
                    chk.count("build:extras")
                    chk.count(f"build:extras:sort{srt}")

    wide_rules_campaign(chk, 160 if quick else 2400)
    float_bounds_campaign(chk, 300 if quick else 4500)

    # ---------------- model side
    exe = chk.build_modelrun("C04")
    if exe:
        res = chk.run_model(exe, lines)
        if res is not None:
            mism = 0
            for ln, want, got in zip(lines, expect, res):
                g = canon_model(got) if ln.startswith("b2m") else got
                if g != want:
                    mism += 1
                    if mism <= 5:
                        def show(x):
                            return x if not x.startswith(("U ", "R ")) else x[:2] + uncps(x[2:].split(" ")[0]) + " " + " ".join(x[2:].split(" ")[1:])
                        chk.broken("correspondence", "C04 model vs werkzeug (" + ln.split(" ")[0] + ")",
                                   f"case {ln[:200]!r}: impl {show(want)[:200]!r} model {show(g)[:200]!r}", case={"line": ln, "impl": want, "model": got})
            chk.count("model:compared", len(lines))
            chk.count("model:mismatches", mism)


def wide_rules_campaign(chk: Check, n: int) -> None:
    """rules with 10..13 variables, several per segment (up to 12 in one): outside the grammar of the model (one variable
    per segment, so the matcher's sorting of a part's regex groups by name is the identity there), checked on the
    implementation: build -> deliver -> match returns exactly the built values, and rebuilding gives the same URL.
    Rule._parse_rule numbers the groups of one part __werkzeug_0, __werkzeug_1, ...; with more than ten in one part the
    names have to be ordered as numbers."""
    from werkzeug.routing import Map, Rule
    rng = chk.rng
    for _ in range(n):
        nvar = rng.randint(10, 13)
        names = [f"{rng.choice('abcdefgh')}{i}" for i in range(nvar)]
        rng.shuffle(names)
        # cut the variables into segments: sometimes all in one, sometimes nine singles and a pair, sometimes random
        c = rng.random()
        if c < 0.3:
            cuts = [nvar]
        elif c < 0.6:
            cuts = [1] * 9 + [nvar - 9]
        else:
            cuts, left = [], nvar
            while left:
                k = rng.randint(1, min(left, 12))
                cuts.append(k)
                left -= k
        segs, vals, it = [], {}, iter(names)
        for k in cuts:
            pieces = []
            for _j in range(k):
                nm = next(it)
                kind = rng.choice(["int", "int", "int(fixed_digits=3)", "string(length=2)"])
                pieces.append(f"<{kind}:{nm}>")
                vals[nm] = rng.choice(["ab", "xy", "zz"]) if kind.startswith("string") else \
                    (rng.randint(0, 999) if "fixed" in kind else rng.choice([0, 7, 12, 2024, 31, 100, 5]))
            segs.append(rng.choice(["-", ".", "_", "~"]).join(pieces))
        rule = "/w/" + "/".join(segs)
        info = {"map": {"rules": [dict(rule=rule, endpoint="wide", methods=None, strict_slashes=None, merge_slashes=None)], "strict_slashes": True,
                        "merge_slashes": True, "redirect_defaults": True, "host_matching": False},
                "adapter": {"server": "example.com"}, "path": None, "method": "GET", "values": {k: repr(v) for k, v in vals.items()}}
        try:
            m = Map([Rule(rule, endpoint="wide"), Rule("/w/other", endpoint="other")])
            a = m.bind("example.com")
            url = a.build("wide", dict(vals))
            info["path"] = unquote(url)
            got = a.match(unquote(url))
        except Exception as e:  # noqa: BLE001
            chk.fail("wide-rule", f"rule {rule!r} with {vals!r}: {type(e).__name__}: {e}", info)
            continue
        chk.count(f"wide:vars{nvar}:maxseg{max(cuts)}" if max(cuts) > 10 else "wide:vars<=10-per-segment")
        chk.case(("wide", rule, repr(vals)), nontrivial=True)
        if got != ("wide", vals):
            wrong = {k: (vals[k], got[1].get(k)) for k in vals if got[0] == "wide" and got[1].get(k) != vals[k]}
            chk.fail("build-then-match-wide", f"rule {rule!r}: build -> {url!r}; match returns {got[0]} with (built, matched) differing at {wrong!r}", info)
            continue
        if a.build(got[0], dict(got[1])) != url:
            chk.fail("match-then-build-wide", f"rule {rule!r}: rebuilt URL differs from {url!r}", info)


def float_bounds_campaign(chk: Check, n: int) -> None:
    """float converters with fractional min / max (the model's float converter has no bounds: checked on the implementation).
    Declarative meaning: a value is admitted iff min <= value <= max; only to_python consults the bounds, so every admitted
    value must build to a URL that matches back to it, and every other value must not match."""
    from werkzeug.routing import Map, Rule, ValidationError
    from werkzeug.routing import converters as wc
    rng = chk.rng
    dummy = Map([])
    for _ in range(n):
        signed = rng.random() < 0.4
        lo = rng.choice([None, None, 0.5, 1.25, 2.5, -1.5, -0.25]) if signed else rng.choice([None, None, 0.5, 1.25, 2.5])
        hi = rng.choice([None, 2.5, 3.75, 10.5, 0.75, -0.5 if signed else 1.5])
        if lo is not None and hi is not None and lo > hi:
            lo, hi = hi, lo
        eps = rng.choice([0.25, 0.125, 0.5])
        pool = [x for b in (lo, hi) if b is not None for x in (b, b - eps, b + eps, float(int(b)), float(int(b)) + 1.0)] + [0.0, 1.0, 2.25, 100.5]
        v = rng.choice(pool)
        if v < 0 and not signed:
            v = -v
        admitted = (lo is None or v >= lo) and (hi is None or v <= hi)
        info = {"converter": f"float(min={lo}, max={hi}, signed={signed})", "value": repr(v)}
        co = wc.FloatConverter(dummy, min=lo, max=hi, signed=signed)
        chk.count("float-bounds:" + ("admitted" if admitted else "outside"))
        chk.case(("float-bounds", lo, hi, signed, v), nontrivial=True)
        try:
            u = co.to_url(v)
            if re.compile(co.regex + r"\Z").match(u) is None:
                if not (v < 0 and not signed):
                    chk.fail("float-bounds", f"to_url({v!r}) = {u!r} is not in the converter's language", info)
                continue
            try:
                back = co.to_python(u)
            except ValidationError:
                back = None
        except Exception as e:  # noqa: BLE001
            chk.fail("float-bounds", f"{type(e).__name__}: {e}", info)
            continue
        if admitted and back != v:
            chk.fail("float-bounds-roundtrip", f"{info['converter']}: {v!r} is within the bounds, builds {u!r}, which converts back to {back!r}", info)
        if not admitted and back is not None:
            chk.fail("float-bounds-admits-outside", f"{info['converter']}: {v!r} is outside the bounds but {u!r} converts to {back!r}", info)
        # through a rule (converter arguments in a rule string cannot be negative)
        if (lo is None or lo >= 0) and (hi is None or hi >= 0):
            args = ", ".join(f"{k}={x}" for k, x in (("min", lo), ("max", hi)) if x is not None)
            if signed:
                args = (args + ", " if args else "") + "signed=True"
            rule = f"/ratio/<float({args}):v>" if args else "/ratio/<float:v>"
            try:
                a = Map([Rule(rule, endpoint="ratio")]).bind("example.com")
                url = a.build("ratio", {"v": v})
                try:
                    got = a.match(url)
                except Exception as e:  # noqa: BLE001
                    got = type(e).__name__
            except Exception as e:  # noqa: BLE001
                chk.fail("float-bounds", f"rule {rule!r}: {type(e).__name__}: {e}", info)
                continue
            info2 = dict(info, map={"rules": [dict(rule=rule, endpoint="ratio", methods=None, strict_slashes=None, merge_slashes=None)], "strict_slashes": True,
                                    "merge_slashes": True, "redirect_defaults": True, "host_matching": False}, adapter={"server": "example.com"}, path=url, method="GET")
            if admitted and got != ("ratio", {"v": v}):
                chk.fail("build-then-match-float-bounds", f"rule {rule!r}: build(v={v!r}) -> {url!r}, which answers {got!r}", info2)
            if not admitted and got == ("ratio", {"v": v}):
                chk.fail("float-bounds-admits-outside", f"rule {rule!r}: {url!r} matches although {v!r} is outside the bounds", info2)


def main(chk: Check) -> None:
    try:
        c03.write_gen("C04")
    except px.Unsupported as e:
        chk.broken("translator", "C03/Gen.v", str(e))
    chk.forbidden_scan()
    if chk.coq_make(["C04/Proofs.vo", "C04/MapProofs.vo", "C04/SubdomainProofs.vo", "C04/FactoryProofs.vo", "C04/Extract.vo"]):
        chk.audit_props("C04/Props.v")
    else:
        chk.cov["obligations"] += 1
    chk.trusted += [
        "everything listed for C03 (the statement pins tools/pins/c03_*.txt cover Rule.build / _compile_builder / suitable_for / build_compare_key, the rule factories, MapAdapter.build / _partial_build, _urlencode, iter_multi_items; translator tools/c03.py incl. the safe= strings of to_url / literal quoting / redirects, extraction, converter language predicates)",
        "urllib.parse.quote / unquote and the UTF-8 codec (lib/Utf8.v) are hand-written models, validated differentially against CPython",
        "float(): Section contract (float(str(x)) = x, str(x) matches \\d+\\.\\d+ on positional floats), validated by the harness on every generated float",
        "uuid.UUID(text) / str(uuid) carried as 32 hex digits; int() on decimal digit strings modelled (Unicode \\d runs from the interpreter)",
        "extraction ExtrOcamlBasic + tools/conv.ml + coq/C04/driver.ml, OCaml 4.13.1",
    ]
    run(chk)
    chk.finish(rule="per converter (string with length options, int signed/fixed_digits/min/max, float signed, any, uuid, path): values of the canonical "
                    "domain incl. Unicode, spaces, URL-reserved characters and '%': to_url -> unquote -> regex -> to_python; maps of 1..6 rules with distinct "
                    "literal first segments, rule defaults, subdomains, script roots '/', '/app', '/app/', force_external on/off, method None/GET: "
                    "build -> deliver -> match -> rebuild, optional extra query values; urllib.parse.unquote on malformed escapes.")


def replay(rep: dict) -> int:
    import json
    inp = rep.get("input") or {}
    print(json.dumps({"property": rep.get("property"), "key": rep.get("key"), "what": rep.get("what")}, indent=1, ensure_ascii=False))
    if "converter" in inp:
        from werkzeug.routing import Map, Rule
        v = eval(inp["value"], {"UUID": _uuid.UUID})  # noqa: S307  (repr of str/int/float/UUID written by this check)
        m = Map([Rule(f"/<{inp['converter']}:v>", endpoint="e")])
        a = m.bind("example.com")
        url = a.build("e", {"v": v})
        print("build:", url)
        try:
            print("match of the delivered path:", a.match(unquote(url)))
        except Exception as e:  # noqa: BLE001
            print("match of the delivered path:", type(e).__name__)
        return 0
    print(json.dumps(inp, indent=1, ensure_ascii=False)[:3000])
    return 0
